// schedmc: property C24 (solver instances in different threads do not interfere).
// VERIF_VARIANTS: rel asan tsan
// A cooperative scheduler runs 2..3 REAL threads one at a time.  Scheduling points: the hooks at every access to the
// process-global free list of big rationals (OSMT_VERIF_SCHED pool.alloc / pool.alloc.mid / pool.release) and every
// pthread_mutex_lock of a managed thread (interposed below; a contended lock blocks the thread in the scheduler, so
// waiting is visible and a deadlock is "no enabled thread").  ALL schedules with at most <bound> preemptions are
// executed (iterative context bounding, DFS with replayed prefixes); each execution runs in a freshly forked child
// because the shared state is process-global.  Oracle: every thread observes exactly what it observes when run alone;
// no crash / sanitizer report / deadlock; replaying a schedule gives the same observations.
//
// usage: schedmc explore <harness> <bound> <shard> <nshards>      harness: micro2 micro3 macro-lra macro-lia macro-uf macro-mixed
//        schedmc replay  <harness> <c0,c1,...>
//        schedmc race    <nthreads> <reps>                        free-running threads (TSan pass; not the deciding step)
#include <api/MainSolver.h>
#include <common/VerifHooks.h>
#include <common/numbers/FastRational.h>
#include <logics/ArithLogic.h>
#include <models/Model.h>
#include <atomic>
#include <cstdio>
#include <cstring>
#include <dlfcn.h>
#include <functional>
#include <linux/futex.h>
#include <map>
#include <pthread.h>
#include <sstream>
#include <string>
#include <sys/syscall.h>
#include <sys/wait.h>
#include <thread>
#include <unistd.h>
#include <vector>
using namespace opensmt;

#if defined(__SANITIZE_THREAD__)
#define SCHEDMC_TSAN 1
#elif defined(__has_feature)
#if __has_feature(thread_sanitizer)
#define SCHEDMC_TSAN 1
#endif
#endif

static std::map<std::string, long> cov, nfail;
static void fail(std::string const & cls, std::string const & detail) { if (nfail[cls]++ < 3) printf("FAIL\t%s\t%s\n", cls.c_str(), detail.c_str()); }

// ---------------------------------------------------------------------------------------------------------------
// thread bodies
using Body = std::function<std::string()>;
static char const * BIG = "1180591620717411303424";       // 2^70

static std::string microBody(int k, int variant) {
    std::ostringstream os;
    FastRational big(BIG);
    if (variant == 0) {          // construct, add, destroy a temporary, divide
        FastRational a = big + FastRational(k); FastRational b = a * a; { FastRational c = b - a; os << c << ";"; } FastRational d = b / big; os << d;
    } else if (variant == 1) {   // copy, assign over a big value, move
        FastRational a = big * FastRational(k + 2); FastRational b = a; b = FastRational(3) - big; FastRational c = std::move(a); os << b << ";" << c;
    } else {                     // word-sized value growing into a big one and shrinking back
        FastRational a(2147483647 - k); a *= a; a *= a; FastRational b = a / a; os << a << ";" << b;
    }
    return os.str();
}

static std::string macroBody(int k, std::string const & kind) {
    std::ostringstream os;
    SMTConfig cfg; char const * msg = "ok"; cfg.setOption(SMTConfig::o_produce_models, SMTOption(1), msg);
    if (kind == "lra") {
        ArithLogic l(Logic_t::QF_LRA); MainSolver s(l, cfg, "s");
        PTRef x = l.mkRealVar("x"), y = l.mkRealVar("y"); PTRef B = l.mkConst(l.getSort_real(), BIG); PTRef K = l.mkConst(l.getSort_real(), std::to_string(k + 3).c_str());
        s.addAssertion(l.mkLeq(l.mkTimes(B, x), l.mkPlus(y, K)));        // 2^70 x <= y + k
        s.addAssertion(l.mkLeq(l.mkTimes(K, B), l.mkPlus(x, y)));        // k 2^70 <= x + y
        s.addAssertion(l.mkOr(l.mkLeq(y, l.getTerm_RealZero()), l.mkLeq(l.mkTimes(B, y), l.mkTimes(l.mkTimes(B, B), K))));
        sstat r = s.check(); os << (r == s_True ? "sat" : r == s_False ? "unsat" : "unknown");
        if (r == s_True) { auto m = s.getModel(); os << " x=" << l.pp(m->evaluate(x)) << " y=" << l.pp(m->evaluate(y)); }
    } else if (kind == "lraeq") {            // top-level equalities: constant substitution merges polynomials during preprocessing
        ArithLogic l(Logic_t::QF_LRA); MainSolver s(l, cfg, "s");
        PTRef x = l.mkRealVar("x"), y = l.mkRealVar("y"), z = l.mkRealVar("z"); PTRef B = l.mkConst(l.getSort_real(), BIG); PTRef K = l.mkConst(l.getSort_real(), std::to_string(k + 3).c_str());
        s.addAssertion(l.mkEq(x, l.mkTimes(K, B)));
        s.addAssertion(l.mkEq(l.mkPlus(x, y), l.mkPlus(B, K)));
        s.addAssertion(l.mkEq(l.mkPlus(l.mkTimes(K, y), z), l.mkTimes(B, B)));
        s.addAssertion(l.mkOr(l.mkLeq(z, y), l.mkLeq(y, z)));
        sstat r = s.check(); os << (r == s_True ? "sat" : r == s_False ? "unsat" : "unknown");
        if (r == s_True) { auto m = s.getModel(); os << " x=" << l.pp(m->evaluate(x)) << " y=" << l.pp(m->evaluate(y)) << " z=" << l.pp(m->evaluate(z)); }
    } else if (kind == "liacut") {           // integer problems that need many integer checks (cuts from proofs every 10th)
        for (int round = 0; round < 3; round++) {
            ArithLogic l(Logic_t::QF_LIA); MainSolver s(l, cfg, "s");
            PTRef x = l.mkIntVar("x"), y = l.mkIntVar("y"), z = l.mkIntVar("z"); auto c = [&](int n) { return l.mkIntConst(n); };
            s.addAssertion(l.mkEq(l.mkPlus(l.mkTimes(c(6 + 2 * round), x), l.mkTimes(c(10), y)), l.mkPlus(l.mkTimes(c(4), z), c(2 * k + 3))));   // even = odd: no integer solution
            s.addAssertion(l.mkAnd(l.mkLeq(c(-40), x), l.mkLeq(x, c(40)))); s.addAssertion(l.mkAnd(l.mkLeq(c(-40), y), l.mkLeq(y, c(40)))); s.addAssertion(l.mkAnd(l.mkLeq(c(-40), z), l.mkLeq(z, c(40))));
            sstat r = s.check(); os << (r == s_True ? "sat" : r == s_False ? "unsat" : "unknown") << ";";
        }
    } else if (kind == "itp") {              // Farkas interpolation
        cfg.setOption(SMTConfig::o_produce_inter, SMTOption(true), msg);
        ArithLogic l(Logic_t::QF_LRA); MainSolver s(l, cfg, "s");
        PTRef x = l.mkRealVar("x"), y = l.mkRealVar("y"), z = l.mkRealVar("z"); PTRef B = l.mkConst(l.getSort_real(), BIG); PTRef K = l.mkConst(l.getSort_real(), std::to_string(k + 3).c_str());
        s.addAssertion(l.mkAnd(l.mkLeq(l.mkTimes(B, x), y), l.mkLeq(y, l.mkPlus(z, K))));
        s.addAssertion(l.mkAnd(l.mkLeq(l.mkPlus(z, l.mkTimes(K, B)), l.mkTimes(B, x)), l.mkLeq(l.getTerm_RealZero(), K)));
        sstat r = s.check(); os << (r == s_True ? "sat" : r == s_False ? "unsat" : "unknown");
        if (r == s_False) { auto ctx = s.getInterpolationContext(); vec<PTRef> itps; ipartitions_t mask; setbit(mask, 0); ctx->getSingleInterpolant(itps, mask); for (PTRef t : itps) os << " " << l.pp(t); }
    } else if (kind == "lia") {
        ArithLogic l(Logic_t::QF_LIA); MainSolver s(l, cfg, "s");
        PTRef x = l.mkIntVar("x"), y = l.mkIntVar("y"); PTRef B = l.mkIntConst(FastRational(BIG)); PTRef K = l.mkIntConst(k + 3);
        s.addAssertion(l.mkEq(l.mkPlus(l.mkTimes(l.mkIntConst(2), x), l.mkTimes(l.mkIntConst(3), y)), l.mkPlus(B, K)));
        s.addAssertion(l.mkLeq(B, l.mkTimes(l.mkIntConst(4), x)));
        s.addAssertion(l.mkOr(l.mkLeq(y, l.mkIntConst(0)), l.mkEq(l.mkMod(y, l.mkIntConst(2)), l.mkIntConst(1))));
        sstat r = s.check(); os << (r == s_True ? "sat" : r == s_False ? "unsat" : "unknown");
        if (r == s_True) { auto m = s.getModel(); os << " x=" << l.pp(m->evaluate(x)) << " y=" << l.pp(m->evaluate(y)); }
    } else {
        ArithLogic l(Logic_t::QF_UF); MainSolver s(l, cfg, "s");
        SRef U = l.declareUninterpretedSort("U"); SymRef f = l.declareFun("f", U, {U});
        std::vector<PTRef> a; for (int i = 0; i < 4 + k; i++) a.push_back(l.mkVar(U, ("a" + std::to_string(i)).c_str()));
        auto F = [&](PTRef t) { return l.mkUninterpFun(f, {t}); };
        for (size_t i = 0; i + 1 < a.size(); i++) s.addAssertion(l.mkOr(l.mkEq(a[i], a[i + 1]), l.mkEq(F(a[i]), a[i + 1])));
        if (kind == "ufsat") s.addAssertion(l.mkNot(l.mkEq(a[0], a.back())));
        else { s.addAssertion(l.mkNot(l.mkEq(F(F(a[0])), F(F(a.back()))))); s.addAssertion(l.mkOr(l.mkEq(a[0], a.back()), l.mkEq(F(a[0]), F(a.back())))); }
        sstat r = s.check(); os << (r == s_True ? "sat" : r == s_False ? "unsat" : "unknown");
        if (r == s_True) { auto m = s.getModel(); for (PTRef t : a) os << " " << l.pp(m->evaluate(t)) << "/" << l.pp(m->evaluate(F(t))); }
    }
    return os.str();
}

static std::vector<Body> bodiesOf(std::string const & h) {
    if (h == "micro2") return {[] { return microBody(1, 0); }, [] { return microBody(2, 1); }};
    if (h == "micro2b") return {[] { return microBody(1, 2); }, [] { return microBody(2, 0); }};
    if (h == "micro3") return {[] { return microBody(1, 0); }, [] { return microBody(2, 1); }, [] { return microBody(3, 2); }};
    if (h == "macro-lra") return {[] { return macroBody(0, "lra"); }, [] { return macroBody(1, "lra"); }};
    if (h == "macro-lia") return {[] { return macroBody(0, "lia"); }, [] { return macroBody(1, "lia"); }};
    if (h == "macro-uf") return {[] { return macroBody(0, "uf"); }, [] { return macroBody(1, "uf"); }};
    if (h == "macro-ufsat") return {[] { return macroBody(0, "ufsat"); }, [] { return macroBody(1, "ufsat"); }};
    if (h == "macro-lraeq") return {[] { return macroBody(0, "lraeq"); }, [] { return macroBody(1, "lraeq"); }};
    if (h == "macro-liacut") return {[] { return macroBody(0, "liacut"); }, [] { return macroBody(1, "liacut"); }};
    if (h == "macro-itp") return {[] { return macroBody(0, "itp"); }, [] { return macroBody(1, "itp"); }};
    if (h == "macro-mixed") return {[] { return macroBody(0, "lra"); }, [] { return macroBody(1, "lia"); }};
    if (h == "macro3") return {[] { return macroBody(0, "lra"); }, [] { return macroBody(1, "lia"); }, [] { return macroBody(0, "uf"); }};
    fprintf(stderr, "unknown harness %s\n", h.c_str()); exit(2);
}

// ---------------------------------------------------------------------------------------------------------------
// cooperative scheduler (runs inside the forked child)
static void fwait(std::atomic<int> * a, int v) { while (a->load() == v) syscall(SYS_futex, (int *)a, FUTEX_WAIT, v, nullptr, nullptr, 0); }
static void fwake(std::atomic<int> * a) { syscall(SYS_futex, (int *)a, FUTEX_WAKE, 1, nullptr, nullptr, 0); }
enum { NEW = 0, PARKED = 1, RUNNING = 2, DONE = 3, BLOCKED = 4 };
struct Sched {
    int n; std::atomic<int> go[8]; std::atomic<int> ctl{0}; std::atomic<int> state[8];
    unsigned long unlockEpoch = 0; unsigned long blockedAt[8];
    explicit Sched(int n_) : n(n_) { for (int i = 0; i < 8; i++) { go[i] = 0; state[i] = NEW; blockedAt[i] = 0; } }
};
static Sched * S = nullptr;
static thread_local int tid = -1;
static void yieldTo(int st) {                 // called by a managed thread: give control back to the scheduler
    S->state[tid] = st; S->ctl = 1; fwake(&S->ctl);
    fwait(&S->go[tid], 0); S->go[tid] = 0; S->state[tid] = RUNNING;
}
static void point(char const * tag) {
    if (tid < 0 || S == nullptr) return;
    bool shared = (tag[0] == 'p' && tag[1] == 'o' && tag[2] == 'o') || tag[0] == 'c';      // pool.* and cgid; "poll" touches no shared state
    if (!shared) return;
    yieldTo(PARKED);
}

#ifndef SCHEDMC_TSAN
extern "C" int pthread_mutex_lock(pthread_mutex_t * m) {
    static auto realLock = (int (*)(pthread_mutex_t *))dlsym(RTLD_NEXT, "pthread_mutex_lock");
    static auto realTry = (int (*)(pthread_mutex_t *))dlsym(RTLD_NEXT, "pthread_mutex_trylock");
    if (tid < 0 || S == nullptr) return realLock(m);
    yieldTo(PARKED);                          // acquiring a lock is a scheduling point
    for (;;) {
        int r = realTry(m);
        if (r == 0) return 0;
        if (r != EBUSY) return r;
        S->blockedAt[tid] = S->unlockEpoch;   // contended: blocked until somebody unlocks
        yieldTo(BLOCKED);
    }
}
extern "C" int pthread_mutex_unlock(pthread_mutex_t * m) {
    static auto realUnlock = (int (*)(pthread_mutex_t *))dlsym(RTLD_NEXT, "pthread_mutex_unlock");
    int r = realUnlock(m);
    if (tid >= 0 && S != nullptr) S->unlockEpoch++;
    return r;
}
#endif

struct Trace { std::vector<int> choice, cur; std::vector<std::vector<int>> enabled; std::vector<std::string> obs; bool deadlock = false; };

static Trace runOnce(std::vector<Body> const & bodies, std::vector<int> const & prefix) {
    int n = bodies.size(); Sched sch(n); S = &sch; Trace t; t.obs.resize(n);
    verif::setSched(point);
    std::vector<std::thread> th;
    for (int i = 0; i < n; i++) th.emplace_back([&, i] { tid = i; yieldTo(PARKED); t.obs[i] = bodies[i](); S->state[i] = DONE; S->ctl = 1; fwake(&S->ctl); });
    auto settled = [&](int i) { int s = sch.state[i]; return s == PARKED || s == DONE || s == BLOCKED; };
    auto allSettled = [&] { for (int i = 0; i < n; i++) if (!settled(i)) return false; return true; };
    while (!allSettled()) { fwait(&sch.ctl, 0); sch.ctl = 0; }
    int cur = -1; size_t step = 0;
    for (;;) {
        auto enabledNow = [&](int i) { int s = sch.state[i]; return s == PARKED || (s == BLOCKED && sch.unlockEpoch > sch.blockedAt[i]); };
        std::vector<int> en;
        if (cur >= 0 && enabledNow(cur)) en.push_back(cur);
        for (int i = 0; i < n; i++) if (i != cur && enabledNow(i)) en.push_back(i);
        if (en.empty()) {
            for (int i = 0; i < n; i++) if (sch.state[i] == BLOCKED) t.deadlock = true;
            break;
        }
        int c = step < prefix.size() ? prefix[step] : 0;
        if (c >= (int)en.size()) { fprintf(stderr, "replay divergence at step %zu\n", step); _exit(4); }
        t.choice.push_back(c); t.enabled.push_back(en); t.cur.push_back(cur >= 0 && enabledNow(cur) ? cur : -1);
        cur = en[c]; step++;
        sch.state[cur] = RUNNING; sch.ctl = 0; sch.go[cur] = 1; fwake(&sch.go[cur]);
        while (sch.state[cur] == RUNNING) { fwait(&sch.ctl, 0); sch.ctl = 0; }
    }
    if (t.deadlock) _exit(5);      // threads are stuck: cannot join
    for (auto & x : th) x.join();
    verif::setSched(nullptr); S = nullptr;
    return t;
}

// one execution in a forked child; returns false if the child died
static bool execute(std::vector<Body> const & bodies, std::vector<int> const & prefix, Trace & t, int & status) {
    int fd[2]; if (pipe(fd)) abort();
    fflush(stdout);
    pid_t pid = fork();
    if (pid == 0) {
        close(fd[0]);
        Trace r = runOnce(bodies, prefix);
        std::ostringstream os; os << r.obs.size(); for (auto & x : r.obs) os << "\n" << x; os << "\n" << r.choice.size();
        for (size_t i = 0; i < r.choice.size(); i++) { os << "\n" << r.choice[i] << " " << r.cur[i] << " " << r.enabled[i].size(); for (int e : r.enabled[i]) os << " " << e; }
        std::string out = os.str(); size_t off = 0;
        while (off < out.size()) { ssize_t k = write(fd[1], out.data() + off, out.size() - off); if (k <= 0) _exit(3); off += k; }
        _exit(0);
    }
    close(fd[1]); std::string in; char buf[65536]; ssize_t k; while ((k = read(fd[0], buf, sizeof buf)) > 0) in.append(buf, k); close(fd[0]);
    waitpid(pid, &status, 0);
    if (!WIFEXITED(status) || WEXITSTATUS(status) != 0) return false;
    std::istringstream is(in); size_t no; is >> no; is.ignore(); t.obs.resize(no); for (auto & x : t.obs) std::getline(is, x);
    size_t nc; is >> nc; t.choice.resize(nc); t.cur.resize(nc); t.enabled.resize(nc);
    for (size_t i = 0; i < nc; i++) { size_t ne; is >> t.choice[i] >> t.cur[i] >> ne; t.enabled[i].resize(ne); for (auto & e : t.enabled[i]) is >> e; }
    return true;
}

static std::string showChoices(std::vector<int> const & c) { std::string s; size_t last = 0; for (size_t i = 0; i < c.size(); i++) if (c[i]) last = i + 1; for (size_t i = 0; i < last; i++) s += (i ? "," : "") + std::to_string(c[i]); return s.empty() ? "0" : s; }

static std::vector<std::string> solo;
static int shard = 0, nshards = 1; static long topIndex = 0;
static std::string HNAME;

static void explore(std::vector<Body> const & bodies, std::vector<int> const & prefix, int bound, int depth) {
    Trace t; int status = 0;
    bool ok = execute(bodies, prefix, t, status);
    cov["schedules"]++;
    if (!ok) {
        int code = WIFEXITED(status) ? WEXITSTATUS(status) : -WTERMSIG(status);
        std::string cls = code == 5 ? "interference:deadlock" : code == 4 ? "harness:replay_divergence" : code < 0 ? "interference:crash_signal_" + std::to_string(-code) : "interference:child_exit_" + std::to_string(code);
        fail(cls, HNAME + " schedule " + showChoices(prefix)); return;
    }
    cov["scheduling_points"] += t.choice.size();
    if (t.obs != solo) {
        std::string d; for (size_t i = 0; i < t.obs.size(); i++) if (t.obs[i] != solo[i]) { d = "thread " + std::to_string(i) + " observed [" + t.obs[i].substr(0, 80) + "] alone [" + solo[i].substr(0, 80) + "]"; break; }
        fail("interference:observation_differs", HNAME + " schedule " + showChoices(t.choice) + ": " + d);
    }
    if (depth == 0 && shard == 0) {       // replay the default schedule once more: identical trace
        Trace t2; int st2; if (!execute(bodies, prefix, t2, st2) || t2.choice != t.choice || t2.enabled != t.enabled || t2.obs != t.obs) fail("harness:replay_divergence", HNAME + " default schedule");
        printf("SAMPLE\t%s: %zu scheduling points in the default schedule, thread 0 observes %s\n", HNAME.c_str(), t.choice.size(), t.obs[0].substr(0, 60).c_str());
    }
    for (size_t i = prefix.size(); i < t.choice.size(); i++) {
        int cost = 0; for (size_t j = 0; j < i; j++) if (t.cur[j] >= 0 && t.enabled[j][t.choice[j]] != t.cur[j]) cost++;
        for (int alt = 1; alt < (int)t.enabled[i].size(); alt++) {
            int c2 = cost + (t.cur[i] >= 0 ? 1 : 0);
            if (c2 > bound) continue;
            if (depth == 0 && (topIndex++ % nshards) != shard) continue;      // top-level deviations are dealt to the shards
            std::vector<int> p(t.choice.begin(), t.choice.begin() + i); p.push_back(alt);
            explore(bodies, p, bound, depth + 1);
        }
    }
}

int main(int argc, char ** argv) {
    setvbuf(stdout, nullptr, _IOLBF, 0);
    if (argc >= 6 && !std::strcmp(argv[1], "explore")) {
        HNAME = argv[2]; int bound = std::atoi(argv[3]); shard = std::atoi(argv[4]); nshards = std::atoi(argv[5]);
        auto bodies = bodiesOf(HNAME);
        // solo observations: each body alone in a fresh child
        for (size_t i = 0; i < bodies.size(); i++) { Trace t; int st; if (!execute({bodies[i]}, {}, t, st)) { fail("harness:solo_run_died", HNAME); break; } solo.push_back(t.obs[0]); }
        if (solo.size() == bodies.size()) explore(bodies, {}, bound, 0);
        if (shard == 0) { cov["harnesses"]++; cov["threads"] += bodies.size(); }
    } else if (argc >= 4 && !std::strcmp(argv[1], "replay")) {
        HNAME = argv[2]; auto bodies = bodiesOf(HNAME); std::vector<int> p; std::stringstream ss(argv[3]); std::string tok; while (std::getline(ss, tok, ',')) p.push_back(std::atoi(tok.c_str()));
        for (size_t i = 0; i < bodies.size(); i++) { Trace t; int st; execute({bodies[i]}, {}, t, st); solo.push_back(t.obs.empty() ? "?" : t.obs[0]); }
        Trace t; int st; bool ok = execute(bodies, p, t, st);
        printf("child %s (status %d); %zu scheduling points\n", ok ? "finished" : "DIED", st, t.choice.size());
        for (size_t i = 0; i < t.obs.size(); i++) printf("thread %zu: %s\n   alone: %s\n", i, t.obs[i].c_str(), solo[i].c_str());
    } else if (argc >= 4 && !std::strcmp(argv[1], "race")) {
        int nth = std::atoi(argv[2]), reps = std::atoi(argv[3]);
        // waves: all threads in the same code path (one wave per kind), then a mixed wave
        std::vector<std::string> kinds = {"lra", "lraeq", "lia", "liacut", "itp", "uf", "ufsat", "mixed"};
        for (auto const & kind : kinds) {
            auto kindOf = [&](int i) { return kind == "mixed" ? kinds[i % 7] : kind; };
            std::vector<std::string> alone; for (int i = 0; i < nth; i++) alone.push_back(macroBody(i % 2, kindOf(i)));
            for (int r = 0; r < reps; r++) {
                std::vector<std::string> obs(nth); std::vector<std::thread> th; std::atomic<bool> go{false};
                for (int i = 0; i < nth; i++) th.emplace_back([&, i] { while (!go.load()) {} try { obs[i] = macroBody(i % 2, kindOf(i)); } catch (std::exception & e) { obs[i] = std::string("exception ") + e.what(); } });
                go = true; for (auto & t : th) t.join();
                cov["race_runs"]++;
                for (int i = 0; i < nth; i++) if (obs[i] != alone[i]) fail("interference:observation_differs", "free-running " + kind + " thread " + std::to_string(i) + " observed [" + obs[i].substr(0, 80) + "] alone [" + alone[i].substr(0, 80) + "]");
            }
        }
    } else { fprintf(stderr, "usage: schedmc explore <harness> <bound> <shard> <nshards> | replay <harness> <choices> | race <nthreads> <reps>\n"); return 2; }
    for (auto & [k, v] : cov) printf("COV\t%s\t%ld\n", k.c_str(), v);
    for (auto & [k, v] : nfail) printf("FAILCOUNT\t%s\t%ld\n", k.c_str(), v);
    return 0;
}
