// termmc: term constructors against a structural evaluator on a value grid (C14), integer normalisation of
// linear atoms (C27), and hash-consing / creation order (C28).
// usage: termmc c14 <flavour bool|lra|lia|uf|ax> <tier> <shard> <nshards>
//        termmc c27 <tier> <shard> <nshards>
//        termmc c28 <tier> <shard> <nshards>
#include <logics/ArithLogic.h>
#include <logics/LogicFactory.h>
#include <common/ApiException.h>
#include <gmpxx.h>
#include <cstdio>
#include <cstring>
#include <functional>
#include <memory>
#include <map>
#include <set>
#include <string>
#include <vector>
#include <algorithm>
using namespace opensmt;

// ---- values ---------------------------------------------------------------------------------------
struct Val {
    char k = 'B';           // B bool, Q number, U uninterpreted element, A array
    bool b = false; mpq_class q; int u = 0; std::vector<int> a;
    bool operator==(Val const & o) const { return k == o.k && (k == 'B' ? b == o.b : k == 'Q' ? q == o.q : k == 'U' ? u == o.u : a == o.a); }
};
static Val VB(bool x) { Val v; v.k = 'B'; v.b = x; return v; }
static Val VQ(mpq_class x) { Val v; v.k = 'Q'; v.q = x; return v; }
static Val VU(int x) { Val v; v.k = 'U'; v.u = x; return v; }
static Val VA(std::vector<int> x) { Val v; v.k = 'A'; v.a = x; return v; }
static mpz_class ediv(mpz_class a, mpz_class n) { mpz_class q; if (n > 0) mpz_fdiv_q(q.get_mpz_t(), a.get_mpz_t(), n.get_mpz_t()); else mpz_cdiv_q(q.get_mpz_t(), a.get_mpz_t(), n.get_mpz_t()); return q; }

struct Env {
    std::map<uint32_t, Val> vars;                       // PTRef of variable -> value
    std::map<std::string, std::vector<int>> fun1;        // unary function/predicate tables over the 2-element universe
    std::map<std::string, std::vector<int>> fun2;
};

struct Undefined {};   // evaluation hit division by zero: the assignment is skipped

static Val evalTerm(Logic & l, PTRef t, Env const & e) {
    Pterm const & p = l.getPterm(t);
    std::string n = l.getSymName(p.symb());
    if (l.isTrue(t)) return VB(true);
    if (l.isFalse(t)) return VB(false);
    if (auto * al = dynamic_cast<ArithLogic *>(&l)) { if (al->isNumConst(t)) return VQ(al->getNumConst(t).getMpq()); }
    if (p.size() == 0) { auto it = e.vars.find(t.x); if (it == e.vars.end()) throw std::logic_error("unbound " + n); return it->second; }
    std::vector<Val> a; for (PTRef c : p) a.push_back(evalTerm(l, c, e));
    if (n == "not") return VB(!a[0].b);
    if (n == "and") { bool r = true; for (auto & x : a) r = r && x.b; return VB(r); }
    if (n == "or") { bool r = false; for (auto & x : a) r = r || x.b; return VB(r); }
    if (n == "xor") { bool r = a[0].b; for (size_t i = 1; i < a.size(); i++) r = r != a[i].b; return VB(r); }
    if (n == "=>") { bool r = a.back().b; for (int i = (int)a.size() - 2; i >= 0; i--) r = !a[i].b || r; return VB(r); }
    if (n == "ite") return a[0].b ? a[1] : a[2];
    if (n == "=") { bool r = true; for (size_t i = 0; i + 1 < a.size(); i++) r = r && a[i] == a[i + 1]; return VB(r); }
    if (n == "distinct") { bool r = true; for (size_t i = 0; i < a.size(); i++) for (size_t j = i + 1; j < a.size(); j++) r = r && !(a[i] == a[j]); return VB(r); }
    if (n == "+") { mpq_class r = 0; for (auto & x : a) r += x.q; return VQ(r); }
    if (n == "*") { mpq_class r = 1; for (auto & x : a) r *= x.q; return VQ(r); }
    if (n == "-") { if (a.size() == 1) return VQ(-a[0].q); mpq_class r = a[0].q; for (size_t i = 1; i < a.size(); i++) r -= a[i].q; return VQ(r); }
    if (n == "<=") return VB(a[0].q <= a[1].q);
    if (n == "<") return VB(a[0].q < a[1].q);
    if (n == ">=") return VB(a[0].q >= a[1].q);
    if (n == ">") return VB(a[0].q > a[1].q);
    if (n == "/") { if (a[1].q == 0) throw Undefined(); return VQ(a[0].q / a[1].q); }
    if (n == "div") { if (a[1].q == 0) throw Undefined(); return VQ(ediv(a[0].q.get_num(), a[1].q.get_num())); }
    if (n == "mod") { if (a[1].q == 0) throw Undefined(); return VQ(a[0].q.get_num() - a[1].q.get_num() * ediv(a[0].q.get_num(), a[1].q.get_num())); }
    if (n == "select") return VU(a[0].a[a[1].u]);
    if (n == "store") { auto v = a[0].a; v[a[1].u] = a[2].u; return VA(v); }
    auto f1 = e.fun1.find(n);
    if (f1 != e.fun1.end() && a.size() == 1) { int r = f1->second[a[0].u]; return n == "P" ? VB(r != 0) : VU(r); }
    auto f2 = e.fun2.find(n);
    if (f2 != e.fun2.end() && a.size() == 2) return VU(f2->second[a[0].u * 2 + a[1].u]);
    throw std::logic_error("unknown symbol " + n);
}

// ---- bookkeeping ----------------------------------------------------------------------------------
static std::map<std::string, long> cov, nfail;
static void fail(std::string const & cls, std::string const & detail) { if (nfail[cls]++ < 3) printf("FAIL\t%s\t%s\n", cls.c_str(), detail.c_str()); }

struct Term { PTRef t; char sort; std::function<Val(Env const &)> sem; std::string s; int depth; bool core = true; };   // sort: B Q U A; core: over the reduced leaf set
struct Ctor { std::string name; std::string argSorts; char res; std::function<PTRef(Logic &, std::vector<PTRef> &)> mk; std::function<Val(std::vector<Val> &)> sem;
              std::function<bool(Logic &, std::vector<PTRef> &)> applicable; };

static vec<PTRef> V(std::vector<PTRef> & a) { vec<PTRef> v; for (PTRef x : a) v.push(x); return v; }

static void runC14(std::string flavour, bool thorough, int shard, int nsh) {
    Logic_t lt = flavour == "lra" ? Logic_t::QF_LRA : flavour == "lia" ? Logic_t::QF_LIA : flavour == "ax" ? Logic_t::QF_AX : Logic_t::QF_UF;
    std::unique_ptr<Logic> lp(LogicFactory::getInstance(lt));
    Logic & l = *lp;
    ArithLogic * al = dynamic_cast<ArithLogic *>(&l);
    bool isInt = flavour == "lia";
    std::vector<Term> leaves;
    std::vector<Env> envs;
    auto leaf = [&](PTRef t, char sort) { leaves.push_back({t, sort, [t, &l](Env const & e) { return evalTerm(l, t, e); }, l.pp(t), 0}); };
    PTRef p = l.mkBoolVar("p"), q = l.mkBoolVar("q");
    leaf(p, 'B'); leaf(q, 'B'); leaf(l.getTerm_true(), 'B'); leaf(l.getTerm_false(), 'B');
    PTRef x = PTRef_Undef, y = PTRef_Undef, ua = PTRef_Undef, ub = PTRef_Undef, arrA = PTRef_Undef, arrB = PTRef_Undef, ii = PTRef_Undef, jj = PTRef_Undef, ee = PTRef_Undef;
    SymRef fsym = SymRef_Undef, psym = SymRef_Undef, gsym = SymRef_Undef;
    if (al) {
        x = isInt ? al->mkIntVar("x") : al->mkRealVar("x"); y = isInt ? al->mkIntVar("y") : al->mkRealVar("y");
        leaf(x, 'Q'); leaf(y, 'Q');
        std::vector<const char *> cs = {"0", "1", "-1", "2", "-3", "2147483647", "2147483648", "-2147483648", "9223372036854775808"};
        if (!isInt) { cs.push_back("1/2"); cs.push_back("-3/2"); }
        for (auto c : cs) {
            leaf(isInt ? al->mkIntConst(FastRational(c)) : al->mkRealConst(FastRational(c)), 'Q');
            // in the quick tier only terms over {x, y, 1, -1, 2, 2^31, 1/2} are nested at depth 2
            std::string cstr = c;
            if (!thorough && !(cstr == "1" || cstr == "-1" || cstr == "2" || cstr == "2147483648" || cstr == "1/2")) leaves.back().core = false;
        }
        std::vector<mpq_class> g;
        if (isInt) { if (thorough) for (const char * s : {"-3", "-2", "-1", "0", "1", "2", "3", "2147483647", "-2147483648"}) g.push_back(mpq_class(s)); else for (const char * s : {"-3", "-1", "0", "2", "2147483647", "-2147483648"}) g.push_back(mpq_class(s)); }
        else { if (thorough) for (const char * s : {"-2", "-1", "-1/2", "0", "1/3", "1/2", "1", "3", "2147483648"}) g.push_back(mpq_class(s)); else for (const char * s : {"-2", "-1/2", "0", "1/3", "1", "2147483648"}) g.push_back(mpq_class(s)); }
        for (auto & vx : g) for (auto & vy : g) for (int pb = 0; pb < 2; pb++) { Env e; e.vars[x.x] = VQ(vx); e.vars[y.x] = VQ(vy); e.vars[p.x] = VB(pb); e.vars[q.x] = VB(!pb && vx > 0); envs.push_back(e); }
    } else if (flavour == "bool") {
        PTRef r = l.mkBoolVar("r"); leaf(r, 'B');
        for (int m = 0; m < 8; m++) { Env e; e.vars[p.x] = VB(m & 1); e.vars[q.x] = VB(m & 2); e.vars[r.x] = VB(m & 4); envs.push_back(e); }
    } else if (flavour == "uf") {
        SRef U = l.declareUninterpretedSort("U");
        ua = l.mkVar(U, "a"); ub = l.mkVar(U, "b"); PTRef uc = l.mkVar(U, "c");
        leaf(ua, 'U'); leaf(ub, 'U'); leaf(uc, 'U');
        fsym = l.declareFun("f", U, {U}); psym = l.declareFun("P", l.getSort_bool(), {U}); gsym = l.declareFun("g", U, {U, U});
        for (int va = 0; va < 2; va++) for (int vb = 0; vb < 2; vb++) for (int vc = 0; vc < 2; vc++) for (int ft = 0; ft < 4; ft++) for (int pt = 0; pt < 4; pt++) for (int gt : {0, 6, 9, 5}) for (int pb = 0; pb < 2; pb++) {
            Env e; e.vars[ua.x] = VU(va); e.vars[ub.x] = VU(vb); e.vars[uc.x] = VU(vc); e.vars[p.x] = VB(pb); e.vars[q.x] = VB(!pb);
            e.fun1["f"] = {ft & 1, (ft >> 1) & 1}; e.fun1["P"] = {pt & 1, (pt >> 1) & 1}; e.fun2["g"] = {gt & 1, (gt >> 1) & 1, (gt >> 2) & 1, (gt >> 3) & 1};
            envs.push_back(e);
        }
    } else { // ax
        SRef I = l.declareUninterpretedSort("I"), E = l.declareUninterpretedSort("E");
        SRef AS = l.getArraySort(I, E);
        arrA = l.mkVar(AS, "a"); arrB = l.mkVar(AS, "b"); ii = l.mkVar(I, "i"); jj = l.mkVar(I, "j"); ee = l.mkVar(E, "e"); PTRef dd = l.mkVar(E, "d");
        leaf(arrA, 'A'); leaf(arrB, 'A'); leaf(ii, 'I'); leaf(jj, 'I'); leaf(ee, 'U'); leaf(dd, 'U');
        for (int a0 = 0; a0 < 4; a0++) for (int b0 = 0; b0 < 4; b0++) for (int vi = 0; vi < 2; vi++) for (int vj = 0; vj < 2; vj++) for (int ve = 0; ve < 2; ve++) for (int vd = 0; vd < 2; vd++) {
            Env e; e.vars[arrA.x] = VA({a0 & 1, a0 >> 1}); e.vars[arrB.x] = VA({b0 & 1, b0 >> 1}); e.vars[ii.x] = VU(vi); e.vars[jj.x] = VU(vj); e.vars[ee.x] = VU(ve); e.vars[dd.x] = VU(vd);
            e.vars[p.x] = VB(vi == vj); e.vars[q.x] = VB(ve);
            envs.push_back(e);
        }
    }
    // index sort 'I' shares the U value kind; element sort is 'U'
    std::vector<Ctor> cs;
    auto always = [](Logic &, std::vector<PTRef> &) { return true; };
    auto B2 = [&](std::string n, std::function<PTRef(Logic &, std::vector<PTRef> &)> mk, std::function<bool(bool, bool)> f) {
        cs.push_back({n, "BB", 'B', mk, [f](std::vector<Val> & a) { return VB(f(a[0].b, a[1].b)); }, always}); };
    B2("and", [](Logic & l, std::vector<PTRef> & a) { return l.mkAnd(a[0], a[1]); }, [](bool a, bool b) { return a && b; });
    B2("or", [](Logic & l, std::vector<PTRef> & a) { return l.mkOr(a[0], a[1]); }, [](bool a, bool b) { return a || b; });
    B2("xor", [](Logic & l, std::vector<PTRef> & a) { return l.mkXor(a[0], a[1]); }, [](bool a, bool b) { return a != b; });
    B2("=>", [](Logic & l, std::vector<PTRef> & a) { return l.mkImpl(a[0], a[1]); }, [](bool a, bool b) { return !a || b; });
    B2("=B", [](Logic & l, std::vector<PTRef> & a) { return l.mkEq(a[0], a[1]); }, [](bool a, bool b) { return a == b; });
    cs.push_back({"not", "B", 'B', [](Logic & l, std::vector<PTRef> & a) { return l.mkNot(a[0]); }, [](std::vector<Val> & a) { return VB(!a[0].b); }, always});
    cs.push_back({"iteB", "BBB", 'B', [](Logic & l, std::vector<PTRef> & a) { return l.mkIte(a[0], a[1], a[2]); }, [](std::vector<Val> & a) { return a[0].b ? a[1] : a[2]; }, always});
    if (flavour == "bool") {
        cs.push_back({"and3", "BBB", 'B', [](Logic & l, std::vector<PTRef> & a) { return l.mkAnd(V(a)); }, [](std::vector<Val> & a) { return VB(a[0].b && a[1].b && a[2].b); }, always});
        cs.push_back({"or3", "BBB", 'B', [](Logic & l, std::vector<PTRef> & a) { return l.mkOr(V(a)); }, [](std::vector<Val> & a) { return VB(a[0].b || a[1].b || a[2].b); }, always});
        cs.push_back({"distinctB", "BB", 'B', [](Logic & l, std::vector<PTRef> & a) { return l.mkDistinct(V(a)); }, [](std::vector<Val> & a) { return VB(a[0].b != a[1].b); }, always});
        cs.push_back({"distinctB3", "BBB", 'B', [](Logic & l, std::vector<PTRef> & a) { return l.mkDistinct(V(a)); }, [](std::vector<Val> & a) { return VB(a[0].b != a[1].b && a[0].b != a[2].b && a[1].b != a[2].b); }, always});
    }
    if (al) {
        auto Q2 = [&](std::string n, std::function<PTRef(ArithLogic &, std::vector<PTRef> &)> mk, std::function<mpq_class(mpq_class, mpq_class)> f, std::function<bool(Logic &, std::vector<PTRef> &)> ok) {
            cs.push_back({n, "QQ", 'Q', [mk](Logic & l, std::vector<PTRef> & a) { return mk(dynamic_cast<ArithLogic &>(l), a); }, [f](std::vector<Val> & a) { return VQ(f(a[0].q, a[1].q)); }, ok}); };
        auto C2 = [&](std::string n, std::function<PTRef(ArithLogic &, std::vector<PTRef> &)> mk, std::function<bool(mpq_class, mpq_class)> f) {
            cs.push_back({n, "QQ", 'B', [mk](Logic & l, std::vector<PTRef> & a) { return mk(dynamic_cast<ArithLogic &>(l), a); }, [f](std::vector<Val> & a) { return VB(f(a[0].q, a[1].q)); }, always}); };
        auto oneConst = [](Logic & l, std::vector<PTRef> & a) { return l.isConstant(a[0]) || l.isConstant(a[1]); };
        auto sndNonZeroConst = [](Logic & l, std::vector<PTRef> & a) { auto & A = dynamic_cast<ArithLogic &>(l); return l.isConstant(a[1]) && !A.isZero(a[1]); };
        Q2("+", [](ArithLogic & l, std::vector<PTRef> & a) { return l.mkPlus(a[0], a[1]); }, [](mpq_class a, mpq_class b) { return mpq_class(a + b); }, always);
        Q2("-", [](ArithLogic & l, std::vector<PTRef> & a) { return l.mkMinus(a[0], a[1]); }, [](mpq_class a, mpq_class b) { return mpq_class(a - b); }, always);
        Q2("*", [](ArithLogic & l, std::vector<PTRef> & a) { return l.mkTimes(a[0], a[1]); }, [](mpq_class a, mpq_class b) { return mpq_class(a * b); }, oneConst);
        if (!isInt) Q2("/", [](ArithLogic & l, std::vector<PTRef> & a) { return l.mkRealDiv(a[0], a[1]); }, [](mpq_class a, mpq_class b) { return mpq_class(a / b); }, sndNonZeroConst);
        if (isInt) {
            Q2("div", [](ArithLogic & l, std::vector<PTRef> & a) { return l.mkIntDiv(a[0], a[1]); }, [](mpq_class a, mpq_class b) { return mpq_class(ediv(a.get_num(), b.get_num())); }, sndNonZeroConst);
            Q2("mod", [](ArithLogic & l, std::vector<PTRef> & a) { return l.mkMod(a[0], a[1]); }, [](mpq_class a, mpq_class b) { return mpq_class(a.get_num() - b.get_num() * ediv(a.get_num(), b.get_num())); }, sndNonZeroConst);
        }
        cs.push_back({"neg", "Q", 'Q', [](Logic & l, std::vector<PTRef> & a) { return dynamic_cast<ArithLogic &>(l).mkNeg(a[0]); }, [](std::vector<Val> & a) { return VQ(-a[0].q); }, always});
        cs.push_back({"+3", "QQQ", 'Q', [](Logic & l, std::vector<PTRef> & a) { return dynamic_cast<ArithLogic &>(l).mkPlus(V(a)); }, [](std::vector<Val> & a) { return VQ(a[0].q + a[1].q + a[2].q); }, always});
        cs.push_back({"iteQ", "BQQ", 'Q', [](Logic & l, std::vector<PTRef> & a) { return l.mkIte(a[0], a[1], a[2]); }, [](std::vector<Val> & a) { return a[0].b ? a[1] : a[2]; }, always});
        C2("<=", [](ArithLogic & l, std::vector<PTRef> & a) { return l.mkLeq(a[0], a[1]); }, [](mpq_class a, mpq_class b) { return a <= b; });
        C2("<", [](ArithLogic & l, std::vector<PTRef> & a) { return l.mkLt(a[0], a[1]); }, [](mpq_class a, mpq_class b) { return a < b; });
        C2(">=", [](ArithLogic & l, std::vector<PTRef> & a) { return l.mkGeq(a[0], a[1]); }, [](mpq_class a, mpq_class b) { return a >= b; });
        C2(">", [](ArithLogic & l, std::vector<PTRef> & a) { return l.mkGt(a[0], a[1]); }, [](mpq_class a, mpq_class b) { return a > b; });
        C2("=Q", [](ArithLogic & l, std::vector<PTRef> & a) { return l.mkEq(a[0], a[1]); }, [](mpq_class a, mpq_class b) { return a == b; });
        C2("distinctQ", [](ArithLogic & l, std::vector<PTRef> & a) { return l.mkDistinct(V(a)); }, [](mpq_class a, mpq_class b) { return a != b; });
        cs.push_back({"distinctQ3", "QQQ", 'B', [](Logic & l, std::vector<PTRef> & a) { return l.mkDistinct(V(a)); }, [](std::vector<Val> & a) { return VB(a[0].q != a[1].q && a[0].q != a[2].q && a[1].q != a[2].q); }, always});
    }
    if (flavour == "uf") {
        cs.push_back({"=U", "UU", 'B', [](Logic & l, std::vector<PTRef> & a) { return l.mkEq(a[0], a[1]); }, [](std::vector<Val> & a) { return VB(a[0].u == a[1].u); }, always});
        cs.push_back({"distinctU", "UU", 'B', [](Logic & l, std::vector<PTRef> & a) { return l.mkDistinct(V(a)); }, [](std::vector<Val> & a) { return VB(a[0].u != a[1].u); }, always});
        cs.push_back({"distinctU3", "UUU", 'B', [](Logic & l, std::vector<PTRef> & a) { return l.mkDistinct(V(a)); }, [](std::vector<Val> & a) { return VB(a[0].u != a[1].u && a[0].u != a[2].u && a[1].u != a[2].u); }, always});
        cs.push_back({"iteU", "BUU", 'U', [](Logic & l, std::vector<PTRef> & a) { return l.mkIte(a[0], a[1], a[2]); }, [](std::vector<Val> & a) { return a[0].b ? a[1] : a[2]; }, always});
        cs.push_back({"f", "U", 'U', [fsym](Logic & l, std::vector<PTRef> & a) { return l.mkUninterpFun(fsym, V(a)); }, nullptr, always});
        cs.push_back({"P", "U", 'B', [psym](Logic & l, std::vector<PTRef> & a) { return l.mkUninterpFun(psym, V(a)); }, nullptr, always});
        cs.push_back({"g", "UU", 'U', [gsym](Logic & l, std::vector<PTRef> & a) { return l.mkUninterpFun(gsym, V(a)); }, nullptr, always});
    }
    if (flavour == "ax") {
        cs.push_back({"select", "AI", 'U', [](Logic & l, std::vector<PTRef> & a) { return l.mkSelect(V(a)); }, [](std::vector<Val> & a) { return VU(a[0].a[a[1].u]); }, always});
        cs.push_back({"store", "AIU", 'A', [](Logic & l, std::vector<PTRef> & a) { return l.mkStore(V(a)); }, [](std::vector<Val> & a) { auto v = a[0].a; v[a[1].u] = a[2].u; return VA(v); }, always});
        cs.push_back({"=A", "AA", 'B', [](Logic & l, std::vector<PTRef> & a) { return l.mkEq(a[0], a[1]); }, [](std::vector<Val> & a) { return VB(a[0].a == a[1].a); }, always});
        cs.push_back({"=E", "UU", 'B', [](Logic & l, std::vector<PTRef> & a) { return l.mkEq(a[0], a[1]); }, [](std::vector<Val> & a) { return VB(a[0].u == a[1].u); }, always});
        cs.push_back({"=I", "II", 'B', [](Logic & l, std::vector<PTRef> & a) { return l.mkEq(a[0], a[1]); }, [](std::vector<Val> & a) { return VB(a[0].u == a[1].u); }, always});
        cs.push_back({"iteA", "BAA", 'A', [](Logic & l, std::vector<PTRef> & a) { return l.mkIte(a[0], a[1], a[2]); }, [](std::vector<Val> & a) { return a[0].b ? a[1] : a[2]; }, always});
    }
    // ---- enumerate -------------------------------------------------------------------------------
    std::vector<Term> pool = leaves;
    long idx = 0;
    auto apply = [&](Ctor & c, std::vector<Term *> const & args, bool keep, std::vector<Term> & out) {
        std::vector<PTRef> a; for (auto * t : args) a.push_back(t->t);
        if (!c.applicable(l, a)) return;
        PTRef r;
        try { r = c.mk(l, a); }
        catch (ApiException &) { cov["api_exceptions"]++; return; }
        catch (std::exception & ex) { fail(std::string("constructor:") + c.name + ":foreign-exception", std::string(ex.what()).substr(0, 80)); return; }
        cov["constructions"]++;
        std::string text = "(" + c.name; for (auto * t : args) text += " " + t->s; text += ")";
        std::function<Val(Env const &)> sem;
        if (c.sem) { auto argsCopy = args; auto semf = c.sem; sem = [argsCopy, semf](Env const & e) { std::vector<Val> v; for (auto * t : argsCopy) v.push_back(t->sem(e)); return semf(v); }; }
        else { std::string nm = c.name; auto argsCopy = args; sem = [argsCopy, nm](Env const & e) { std::vector<Val> v; for (auto * t : argsCopy) v.push_back(t->sem(e));
                  if (nm == "g") return VU(e.fun2.at("g")[v[0].u * 2 + v[1].u]); int r = e.fun1.at(nm)[v[0].u]; return nm == "P" ? VB(r != 0) : VU(r); }; }
        bool bad = false;
        for (auto & e : envs) {
            Val want, got;
            try { want = sem(e); } catch (Undefined &) { continue; }
            try { got = evalTerm(l, r, e); } catch (Undefined &) { continue; }
            cov["evaluations"]++;
            if (!(want == got)) { fail("constructor:" + c.name, text + " -> " + l.pp(r)); bad = true; break; }
        }
        (void)bad;
        // level-1 terms that become arguments at level 2: results of unary/binary constructors, and ite with the condition p
        bool coreArgs = true; for (auto * t : args) coreArgs = coreArgs && t->core;
        if (keep && coreArgs && (args.size() <= 2 || (c.name.substr(0, 3) == "ite" && args[0]->t == p))) { int d = 0; for (auto * t : args) d = std::max(d, t->depth); out.push_back({r, c.res, sem, text, d + 1, true}); }
    };
    auto forAllArgs = [&](Ctor & c, std::vector<Term> & from, std::function<bool(std::vector<Term *> const &)> filter, bool keep, std::vector<Term> & out) {
        size_t n = c.argSorts.size();
        std::vector<std::vector<Term *>> cand(n);
        for (size_t i = 0; i < n; i++) for (auto & t : from) if (t.sort == c.argSorts[i]) cand[i].push_back(&t);
        std::vector<size_t> ix(n, 0);
        for (size_t i = 0; i < n; i++) if (cand[i].empty()) return;
        while (true) {
            std::vector<Term *> args; for (size_t i = 0; i < n; i++) args.push_back(cand[i][ix[i]]);
            if (filter(args)) { if ((idx++ % nsh) == shard) apply(c, args, keep, out); else if (keep) { /* other shards still need the term for depth 2 */ apply(c, args, keep, out); } }
            size_t k = 0; while (k < n && ++ix[k] == cand[k].size()) { ix[k] = 0; k++; }
            if (k == n) break;
        }
    };
    std::vector<Term> lvl1;
    for (auto & c : cs) forAllArgs(c, pool, [](std::vector<Term *> const &) { return true; }, true, lvl1);
    cov["level1_terms"] = lvl1.size();
    std::vector<Term> all = pool; for (auto & t : lvl1) all.push_back(t);
    std::vector<Term> sink;
    for (auto & c : cs) {
        forAllArgs(c, all, [&](std::vector<Term *> const & a) {
            int nd = 0; for (auto * t : a) nd += t->depth > 0;
            if (nd == 0) return false;
            // quick: exactly one nested argument; thorough: unary/binary constructors also with both arguments nested
            if (nd == 1) return true;
            return thorough && c.argSorts.size() <= 2; }, false, sink);
    }
    cov["envs"] = envs.size();
    if (shard == 0) { printf("SAMPLE\t%s: %s under %zu assignments\n", flavour.c_str(), lvl1[lvl1.size() / 2].s.c_str(), envs.size()); printf("SAMPLE\t%s: %s\n", flavour.c_str(), lvl1[lvl1.size() / 3].s.c_str()); }
}

// ---- C27: gcd normalisation / tightening of integer atoms --------------------------------------------
static void runC27(bool thorough, int shard, int nsh) {
    ArithLogic l(Logic_t::QF_LIA);
    PTRef x = l.mkIntVar("x"), y = l.mkIntVar("y");
    std::vector<mpz_class> cvals; for (int c = -12; c <= 12; c++) cvals.push_back(c);
    for (const char * s : {"2147483647", "2147483648", "-2147483648", "-2147483649", "4294967296", "9223372036854775807", "-9223372036854775808"}) cvals.push_back(mpz_class(s));
    std::vector<mpz_class> grid; for (int v = -8; v <= 8; v++) grid.push_back(v);
    for (const char * s : {"1073741824", "-1073741824", "2147483647", "-2147483648", "4611686018427387904"}) grid.push_back(mpz_class(s));
    const char * rels[] = {"<=", "<", "=", ">=", ">"};
    long idx = 0;
    int R = thorough ? 6 : 4;
    for (int a = -R; a <= R; a++) for (int b = -R; b <= R; b++) {
        if (a == 0 && b == 0) continue;
        if ((idx++ % nsh) != shard) continue;
        for (auto & c : cvals) for (int rel = 0; rel < 5; rel++) for (int form = 0; form < 2; form++) {
            PTRef ax = l.mkTimes(l.mkIntConst(FastRational(std::to_string(a).c_str())), x), by = l.mkTimes(l.mkIntConst(FastRational(std::to_string(b).c_str())), y);
            PTRef cc = l.mkIntConst(FastRational(c.get_str().c_str()));
            // form 0: a*x + b*y REL c ; form 1: a*x REL c - b*y
            PTRef lhs = form == 0 ? l.mkPlus(ax, by) : ax, rhs = form == 0 ? cc : l.mkMinus(cc, by);
            PTRef at;
            try { at = rel == 0 ? l.mkLeq(lhs, rhs) : rel == 1 ? l.mkLt(lhs, rhs) : rel == 2 ? l.mkEq(lhs, rhs) : rel == 3 ? l.mkGeq(lhs, rhs) : l.mkGt(lhs, rhs); }
            catch (std::exception & ex) { fail("rounding:atom-exception", ex.what()); continue; }
            cov["atoms"]++;
            for (auto & vx : grid) for (auto & vy : grid) {
                mpz_class L = a * vx + b * vy; bool want = rel == 0 ? L <= c : rel == 1 ? L < c : rel == 2 ? L == c : rel == 3 ? L >= c : L > c;
                Env e; e.vars[x.x] = VQ(mpq_class(vx)); e.vars[y.x] = VQ(mpq_class(vy));
                Val got = evalTerm(l, at, e); cov["evaluations"]++;
                if (got.b != want) { fail(std::string("rounding:atom:") + rels[rel], std::to_string(a) + "*x + " + std::to_string(b) + "*y " + rels[rel] + " " + c.get_str() + " became " + l.pp(at) + " (x=" + vx.get_str() + ", y=" + vy.get_str() + ")"); goto next; }
            }
            next:;
        }
    }
    // constant folding of div and mod
    std::vector<mpz_class> ts; for (int t = -40; t <= 40; t++) ts.push_back(t);
    for (const char * s : {"2147483647", "2147483648", "2147483649", "4294967296", "9223372036854775808", "18446744073709551617"}) { ts.push_back(mpz_class(s)); ts.push_back(-mpz_class(s)); }
    std::vector<mpz_class> ns; for (int n = -9; n <= 9; n++) if (n) ns.push_back(n);
    for (const char * s : {"2147483648", "2147483649", "4294967297"}) { ns.push_back(mpz_class(s)); ns.push_back(-mpz_class(s)); }
    for (auto & t : ts) for (auto & n : ns) {
        if ((idx++ % nsh) != shard) continue;
        PTRef tt = l.mkIntConst(FastRational(t.get_str().c_str())), nn = l.mkIntConst(FastRational(n.get_str().c_str()));
        mpz_class q = ediv(t, n), r = t - n * q;
        cov["folds"]++;
        try {
            PTRef d = l.mkIntDiv(tt, nn), m = l.mkMod(tt, nn);
            if (!l.isNumConst(d) || l.getNumConst(d).getMpq() != q) fail("rounding:fold-div", "(div " + t.get_str() + " " + n.get_str() + ") = " + l.pp(d) + ", expected " + q.get_str());
            if (!l.isNumConst(m) || l.getNumConst(m).getMpq() != r) fail("rounding:fold-mod", "(mod " + t.get_str() + " " + n.get_str() + ") = " + l.pp(m) + ", expected " + r.get_str());
        } catch (std::exception & ex) { fail("rounding:fold-exception", t.get_str() + " " + n.get_str() + ": " + ex.what()); }
    }
    if (shard == 0) printf("SAMPLE\t3*x + -2*y <= 7 and 3*x <= 7 - (-2*y) evaluated on x,y in [-8,8] and word boundaries\nSAMPLE\t(div -7 2), (mod -7 -2) folded\n");
}

// ---- C28: identity of equal terms, creation order -----------------------------------------------------
static std::string structural(Logic & l, PTRef t) {
    Pterm const & p = l.getPterm(t); std::string s = l.getSymName(p.symb());
    if (p.size() == 0) return s;
    std::string r = "(" + s; for (PTRef c : p) r += " " + structural(l, c); return r + ")";
}
static void checkOrder(Logic & l, PTRef t, std::string const & ctx) {
    Pterm const & p = l.getPterm(t);
    for (PTRef c : p) {
        if (!(c.x < t.x)) fail("identity:child-after-parent", ctx + ": " + l.pp(t));
    }
}
static void runC28(bool thorough, int shard, int nsh) {
    // all construction sequences of length <= L over a constructor alphabet; each sequence is run on a fresh logic twice
    // (original order and with the independent first two steps swapped / commutative arguments swapped)
    struct Step { int op; int a, b; };   // arguments index the terms existing so far (leaves first)
    const int NOPS = 9;
    int L = thorough ? 4 : 3;
    bool pureLRA = false;   // in the pure arithmetic logic mkEq orients arithmetic equalities itself (insensitive to argument order); with UF it keeps the given order
    int leafOrder = 0;      // 0: variables are created before the constants, 1: constants first (term references are creation-ordered and
                            // some constructors orient their result by the references of the leaves)
    auto build = [&](std::vector<Step> const & seq, bool swapArgs, std::vector<std::string> * out) -> bool {
        ArithLogic l(pureLRA ? Logic_t::QF_LRA : Logic_t::QF_UFLRA);
        if (pureLRA) for (auto & s : seq) if (s.op == 7) return false;
        PTRef c1 = PTRef_Undef, c2 = PTRef_Undef;
        if (leafOrder == 1) { c1 = l.mkRealConst(FastRational(-3)); c2 = l.mkRealConst(FastRational(2)); }
        PTRef vx = l.mkRealVar("x"), vy = l.mkRealVar("y"), vp = l.mkBoolVar("p"), vq = l.mkBoolVar("q");
        if (leafOrder == 0) { c1 = l.mkRealConst(FastRational(-3)); c2 = l.mkRealConst(FastRational(2)); }
        std::vector<PTRef> ts = {vx, vy, vp, vq, c1, c2};
        SymRef f = pureLRA ? SymRef_Undef : l.declareFun("f", l.getSort_real(), {l.getSort_real()});
        std::map<std::string, PTRef> byStruct;
        for (auto & s : seq) {
            if (s.a >= (int)ts.size() || s.b >= (int)ts.size()) return false;
            PTRef a = ts[s.a], b = ts[s.b];
            bool ab = l.hasSortBool(a), bb = l.hasSortBool(b);
            // constructors that normalise the argument order: and, or, + , *, and = on non-Boolean arguments
            bool comm = s.op == 0 || s.op == 1 || s.op == 4 || s.op == 6 ;   // = is not swapped between the two runs: its orientation depends on term references, i.e. on the history of the logic; Boolean = keeps the given argument order (no normalisation claimed); arithmetic = is oriented by the constructor
            if (swapArgs && comm) std::swap(a, b), std::swap(ab, bb);
            PTRef r = PTRef_Undef;
            try {
                switch (s.op) {
                    case 0: if (!ab || !bb) return false; r = l.mkAnd(a, b); break;
                    case 1: if (!ab || !bb) return false; r = l.mkOr(a, b); break;
                    case 2: if (ab != bb) return false; r = l.mkEq(a, b); break;
                    case 3: if (!ab) return false; r = l.mkNot(a); break;
                    case 4: if (ab || bb) return false; r = l.mkPlus(a, b); break;
                    case 5: if (ab || bb) return false; r = l.mkLeq(a, b); break;
                    case 6: if (ab || bb) return false; if (!l.isConstant(a) && !l.isConstant(b)) return false; r = l.mkTimes(a, b); break;
                    case 7: if (ab) return false; { vec<PTRef> v; v.push(a); r = l.mkUninterpFun(f, std::move(v)); } break;
                    case 8: if (!ab || bb) return false; r = l.mkIte(a, b, ts[0]); break;
                }
            } catch (std::exception &) { return false; }
            ts.push_back(r);
        }
        // collect all terms reachable, check order and identity
        std::set<uint32_t> seen; std::vector<PTRef> todo(ts.begin(), ts.end());
        while (!todo.empty()) { PTRef t = todo.back(); todo.pop_back(); if (!seen.insert(t.x).second) continue; checkOrder(l, t, "sequence"); for (PTRef c : l.getPterm(t)) todo.push_back(c); }
        for (uint32_t tx : seen) { PTRef t{tx}; std::string s = structural(l, t); auto it = byStruct.find(s); if (it != byStruct.end() && it->second != t) fail("identity:two-refs-for-one-structure", s); byStruct[s] = t; }
        // rebuilding the same step again must return the same reference
        size_t base = 6;
        for (size_t i = 0; i < seq.size(); i++) {
            auto & s = seq[i]; PTRef a = ts[s.a], b = ts[s.b]; PTRef r = PTRef_Undef;
            bool comm2 = s.op == 0 || s.op == 1 || (s.op == 2 && !l.hasSortBool(a)) || s.op == 4 || s.op == 6;
            if (swapArgs && !comm2 && (s.op == 2)) { /* built in the given order */ }
            switch (s.op) { case 0: r = l.mkAnd(a, b); break; case 1: r = l.mkOr(a, b); break; case 2: r = l.mkEq(a, b); break; case 3: r = l.mkNot(a); break; case 4: r = l.mkPlus(a, b); break;
                            case 5: r = l.mkLeq(a, b); break; case 6: r = l.mkTimes(a, b); break; case 7: { vec<PTRef> v; v.push(a); r = l.mkUninterpFun(f, std::move(v)); } break; case 8: r = l.mkIte(a, b, ts[0]); break; }
            PTRef expect = ts[base + i];
            // for normalising constructors the original argument order must give the term that was built with swapped arguments
            if (r != expect) fail("identity:rebuild-gives-another-reference", structural(l, expect) + " vs " + structural(l, r));
            // inside ONE logic the normalising constructors must be insensitive to the argument order (and, or, +, *; = on arithmetic
            // arguments in the pure arithmetic logic, where mkEq orients the equality itself)
            bool commHere = s.op == 0 || s.op == 1 || s.op == 4 || s.op == 6 || (s.op == 2 && pureLRA && !l.hasSortBool(a));
            if (commHere) {
                PTRef r2 = PTRef_Undef;
                switch (s.op) { case 0: r2 = l.mkAnd(b, a); break; case 1: r2 = l.mkOr(b, a); break; case 2: r2 = l.mkEq(b, a); break; case 4: r2 = l.mkPlus(b, a); break; case 6: r2 = l.mkTimes(b, a); break; }
                cov["swapped_rebuilds_in_the_same_logic"]++;
                if (r2 != expect) fail("identity:argument-order-changes-the-term", structural(l, expect) + " vs " + structural(l, r2) + (leafOrder ? " (constants created before the variables)" : ""));
            }
        }
        if (out) for (size_t i = base; i < ts.size(); i++) out->push_back(structural(l, ts[i]));
        return true;
    };
    long idx = 0;
    std::vector<Step> seq;
    // pass A: all sequences of length <= 3 over the 9 constructors, 4 variants (leaf order x logic).  pass B (thorough): the sequences
    // of length exactly 4 over the 5 constructors {and, =, +, <=, f} in the default variant (the full length-4 space is ~10^9 builds).
    int nVariants = 4, judgeFrom = 1; bool opAllowed[NOPS]; for (bool & x : opAllowed) x = true;
    L = 3;
    std::function<void(int)> rec = [&](int depth) {
        if (depth >= judgeFrom) {
            if ((idx++ % nsh) == shard) {
                std::vector<std::string> s1, s2;
                for (int variant = 0; variant < nVariants; variant++) {
                    leafOrder = variant & 1; pureLRA = variant >> 1;
                    s1.clear(); s2.clear();
                    if (build(seq, false, &s1)) {
                        cov[variant == 0 ? "sequences" : variant == 1 ? "sequences_constants_created_first" : "sequences_pure_arithmetic_logic"]++;
                        if (build(seq, true, &s2)) {
                            cov["sequences_with_swapped_commutative_arguments"]++;
                            if (s1 != s2) fail("identity:commutative-argument-order-changes-the-term", s1.back() + " vs " + s2.back() + (leafOrder ? " (constants created before the variables)" : ""));
                        }
                    }
                }
                leafOrder = 0; pureLRA = false;
            }
        }
        if (depth == L) return;
        int nterms = 6 + depth;
        for (int op = 0; op < NOPS; op++) for (int a = 0; a < nterms; a++) for (int b = 0; b < (op == 3 || op == 7 ? 1 : nterms); b++) {
            if (!opAllowed[op]) continue;
            seq.push_back({op, a, b}); rec(depth + 1); seq.pop_back();
        }
    };
    rec(0);
    if (thorough) {
        L = 4; nVariants = 1; judgeFrom = 4; idx = 0;
        for (int op = 0; op < NOPS; op++) opAllowed[op] = (op == 0 || op == 2 || op == 4 || op == 5 || op == 7);
        rec(0);
    }
    if (shard == 0) printf("SAMPLE\tsequence: t6=(and p q); t7=(not t6); t8=(= t7 p)  -- built twice, second time with commutative arguments swapped\n");
}

int main(int argc, char ** argv) {
    std::string mode = argc > 1 ? argv[1] : "";
    try {
        if (mode == "c14") { std::string fl = argv[2]; bool th = !strcmp(argv[3], "thorough"); runC14(fl, th, atoi(argv[4]), atoi(argv[5])); }
        else if (mode == "c27") { runC27(!strcmp(argv[2], "thorough"), atoi(argv[3]), atoi(argv[4])); }
        else if (mode == "c28") { runC28(!strcmp(argv[2], "thorough"), atoi(argv[3]), atoi(argv[4])); }
        else { fprintf(stderr, "usage\n"); return 2; }
    } catch (std::exception & e) { printf("FAIL\tharness:exception\t%s\nFAILCOUNT\tharness:exception\t1\n", e.what()); }
    for (auto & [k, v] : cov) printf("COV\t%s\t%ld\n", k.c_str(), v);
    for (auto & [k, v] : nfail) printf("FAILCOUNT\t%s\t%ld\n", k.c_str(), v);
    return 0;
}
