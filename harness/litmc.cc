// litmc: every string up to a length bound over {0,1,9,.,/,-} (+ structured long literals) through
// ArithLogic::mkConst(const char*) in an Int-only, a Real-only and a mixed logic (property C16).
// usage: litmc <maxlen> <shard> <nshards>     |   litmc replay <string>
// A block of strings runs in a forked child so that a trap (SIGFPE/SIGSEGV) is an observation.
#include <logics/ArithLogic.h>
#include <common/ApiException.h>
#include <gmpxx.h>
#include <cstdio>
#include <cstring>
#include <map>
#include <string>
#include <vector>
#include <unistd.h>
#include <sys/wait.h>
using namespace opensmt;

// value of s under the strict grammar -?D+(.D+)?(/D+(.D+)?)?  (lenient: D*(.D*)? with at least one digit per part)
static bool parse(std::string const & s, bool lenient, mpq_class & out) {
    size_t i = 0;
    bool neg = false;
    if (i < s.size() && s[i] == '-') { neg = true; i++; }
    auto part = [&](mpq_class & q) {
        size_t j = i; while (i < s.size() && isdigit(s[i])) i++;
        std::string a = s.substr(j, i - j), b; bool dot = false;
        if (i < s.size() && s[i] == '.') { dot = true; i++; size_t k = i; while (i < s.size() && isdigit(s[i])) i++; b = s.substr(k, i - k); }
        if (!lenient) { if (a.empty() || (dot && b.empty())) return false; }
        else if (a.empty() && b.empty()) return false;
        mpz_class num((a + b).empty() ? "0" : a + b, 10), den(1);
        for (size_t k = 0; k < b.size(); k++) den *= 10;
        q = mpq_class(num, den); q.canonicalize(); return true;
    };
    mpq_class n, d(1);
    if (!part(n)) return false;
    if (i < s.size() && s[i] == '/') { i++; if (!part(d)) return false; if (d == 0) return false; }
    if (i != s.size()) return false;
    out = n / d; if (neg) out = -out;
    return true;
}

static const Logic_t LOGICS[3] = {Logic_t::QF_LRA, Logic_t::QF_LIA, Logic_t::QF_AUFLIRA};
static const char * LNAME[3] = {"real-only", "int-only", "mixed"};

// one code per logic: V value ok, W wrong value, A accepted although malformed, L lenient accept with the natural value,
// R ApiException, X other std::exception, Y non-std exception, P not a numeric constant
static std::string classify(std::string const & s) {
    mpq_class strict, len; bool isStrict = parse(s, false, strict), isLen = parse(s, true, len);
    std::string rep;
    for (int k = 0; k < 3; k++) {
        ArithLogic l(LOGICS[k]); char code = '?';
        try {
            PTRef t = l.mkConst(s.c_str());
            if (l.isNumConst(t)) {
                mpq_class got = l.getNumConst(t).getMpq();
                // printing must denote the internal value
                std::string printed = l.termToSMT2String(t);
                if (isStrict) code = got == strict ? 'V' : 'W';
                else if (isLen) code = got == len ? 'L' : 'W';
                else code = 'A';
                // the constant must BE the number: equal to the constant built from its value, and printed as that value
                if (code == 'V' || code == 'L') {
                    PTRef canon = l.mkConst(l.getSortRef(t), l.getNumConst(t));
                    if (l.mkEq(t, canon) != l.getTerm_true()) code = 'I';
                    else {
                        mpq_class pv;
                        std::string p2 = printed;
                        // printed forms: 5, (- 5), (/ 1 3), (/ (- 1) 3), (- (/ 1 3))
                        std::string digits; bool neg = false; std::vector<std::string> nums;
                        for (char ch : p2) { if (isdigit(ch)) digits += ch; else { if (!digits.empty()) { nums.push_back(digits); digits.clear(); } if (ch == '-') neg = true; } }
                        if (!digits.empty()) nums.push_back(digits);
                        if (nums.size() == 1) pv = mpq_class(nums[0]); else if (nums.size() == 2 && mpz_class(nums[1]) != 0) { pv = mpq_class(mpz_class(nums[0]), mpz_class(nums[1])); pv.canonicalize(); } else pv = got + 1;
                        if (neg) pv = -pv;
                        if (pv != got) code = 'Q';
                    }
                }
            } else code = 'P';
        } catch (ApiException &) { code = 'R'; } catch (std::exception &) { code = 'X'; } catch (...) { code = 'Y'; }
        rep += code;
    }
    return rep;
}

static std::vector<std::string> structured() {
    std::vector<std::string> v;
    for (int k : {1, 2, 5, 17, 40}) {
        std::string z(k, '0');
        v.push_back(z + "7"); v.push_back("7." + z + "3"); v.push_back("7.5" + z); v.push_back(z + "7/" + z + "2"); v.push_back("-" + z + "9." + z);
        v.push_back("1" + z); v.push_back("1" + z + "/1" + z); v.push_back("0." + z + "1/0." + z + "1"); v.push_back(z + "." + z);
    }
    v.push_back("123456789012345678901234567890"); v.push_back("123456789012345678901234567890/3"); v.push_back("-123456789012345678901234567890.5");
    v.push_back("2147483647"); v.push_back("2147483648"); v.push_back("-2147483648"); v.push_back("4294967296/4294967295"); v.push_back("9223372036854775808");
    v.push_back("08"); v.push_back("010"); v.push_back("0x10"); v.push_back("1e5"); v.push_back("+5"); v.push_back("--5"); v.push_back("5-"); v.push_back("1/-2"); v.push_back(" 5"); v.push_back("5 ");
    v.push_back("1/2/3"); v.push_back("1..2"); v.push_back("1.2.3"); v.push_back("1/0"); v.push_back("1/0.0"); v.push_back("0/0"); v.push_back("."); v.push_back("-."); v.push_back("/1"); v.push_back("1/");
    return v;
}

int main(int argc, char ** argv) {
    if (argc >= 3 && !strcmp(argv[1], "replay")) {
        std::string s = argv[2];
        pid_t p = fork();
        if (p == 0) { std::string r = classify(s); printf("codes (real-only,int-only,mixed) = %s\n", r.c_str()); _exit(0); }
        int st; waitpid(p, &st, 0);
        if (WIFSIGNALED(st)) { printf("killed by signal %d\n", WTERMSIG(st)); return 1; }
        return 0;
    }
    int maxlen = argc > 1 ? atoi(argv[1]) : 5;
    int shard = argc > 2 ? atoi(argv[2]) : 0, nsh = argc > 3 ? atoi(argv[3]) : 1;
    const char * A = "019./-"; const int na = 6;
    std::vector<std::string> all;
    for (int len = 1; len <= maxlen; len++) {
        long cnt = 1; for (int i = 0; i < len; i++) cnt *= na;
        for (long c = 0; c < cnt; c++) { std::string s; long k = c; for (int i = 0; i < len; i++) { s += A[k % na]; k /= na; } all.push_back(s); }
    }
    for (auto & s : structured()) all.push_back(s);
    std::vector<std::string> mine;
    for (size_t i = 0; i < all.size(); i++) if ((long)(i % nsh) == shard) mine.push_back(all[i]);
    std::map<std::string, long> cls; std::map<std::string, std::string> ex; long total = 0, nwf = 0, nbad = 0, nlen = 0;
    size_t pos = 0;
    while (pos < mine.size()) {
        int fd[2]; if (pipe(fd)) return 2;
        size_t end = std::min(mine.size(), pos + 400);
        pid_t p = fork();
        if (p == 0) {
            close(fd[0]);
            for (size_t i = pos; i < end; i++) {
                std::string r = classify(mine[i]);
                char buf[64]; int n = snprintf(buf, sizeof buf, "%zu %s\n", i, r.c_str());
                if (write(fd[1], buf, n) < 0) _exit(9);
            }
            _exit(0);
        }
        close(fd[1]);
        std::string got; char buf[4096]; ssize_t n;
        while ((n = read(fd[0], buf, sizeof buf)) > 0) got.append(buf, n);
        close(fd[0]);
        int st; waitpid(p, &st, 0);
        size_t done = pos; size_t off = 0;
        while (off < got.size()) {
            size_t nl = got.find('\n', off); if (nl == std::string::npos) break;
            std::string line = got.substr(off, nl - off); off = nl + 1;
            size_t sp = line.find(' '); size_t idx = std::stoul(line.substr(0, sp)); std::string rep = line.substr(sp + 1);
            std::string const & s = mine[idx]; mpq_class tmp; bool st1 = parse(s, false, tmp), ln = parse(s, true, tmp);
            std::string key = std::string(st1 ? "wf " : ln ? "lenient " : "malformed ") + rep;
            if (!cls[key]++) ex[key] = s;
            total++; (st1 ? nwf : ln ? nlen : nbad)++;
            done = idx + 1;
        }
        if (done < end) { // the child died on mine[done]
            std::string const & s = mine[done]; mpq_class tmp; bool st1 = parse(s, false, tmp), ln = parse(s, true, tmp);
            std::string key = std::string(st1 ? "wf " : ln ? "lenient " : "malformed ") + "!signal" + std::to_string(WIFSIGNALED(st) ? WTERMSIG(st) : -WEXITSTATUS(st));
            if (!cls[key]++) ex[key] = s;
            total++; (st1 ? nwf : ln ? nlen : nbad)++;
            done++;
        }
        pos = done;
    }
    printf("COV\tstrings\t%ld\nCOV\twell_formed\t%ld\nCOV\tlenient_only\t%ld\nCOV\tmalformed\t%ld\n", total, nwf, nlen, nbad);
    for (auto & [k, v] : cls) {
        printf("CLASS\t%s\t%ld\t%s\n", k.c_str(), v, ex[k].c_str());
        // verdicts
        std::string kind = k.substr(0, k.find(' ')), rep = k.substr(k.find(' ') + 1);
        if (rep[0] == '!') { printf("FAIL\tliteral:crash:%s\t\"%s\"\nFAILCOUNT\tliteral:crash:%s\t%ld\n", rep.c_str() + 1, ex[k].c_str(), rep.c_str() + 1, v); continue; }
        for (int i = 0; i < 3; i++) {
            char c = rep[i]; std::string site;
            if (c == 'W') site = "literal:wrong-value";
            else if (c == 'A') site = "literal:accepted-malformed";
            else if (c == 'Y') site = "literal:foreign-exception";
            else if (c == 'I') site = "literal:constant-differs-from-its-value";
            else if (c == 'Q') site = "literal:printed-value-differs";
            else continue;
            site += std::string(":") + LNAME[i];
            printf("FAIL\t%s\t\"%s\" (%s string, codes %s)\nFAILCOUNT\t%s\t%ld\n", site.c_str(), ex[k].c_str(), kind.c_str(), rep.c_str(), site.c_str(), v);
        }
    }
    if (shard == 0) { printf("SAMPLE\tmkConst(\"%s\") in real-only, int-only and mixed logics\n", mine[mine.size() / 2].c_str()); printf("SAMPLE\tmkConst(\"%s\")\n", mine[mine.size() - 7].c_str()); }
    return 0;
}
