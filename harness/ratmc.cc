// ratmc: exhaustive comparison of opensmt::FastRational with GMP on a boundary set (property C15).
// VERIF_NO_ACCESS_CONTROL   (built with -fno-access-control to inspect the hidden representation)
// VERIF_VARIANTS: rel asan
//
// usage: ratmc <tier quick|thorough> <shard> <nshards>      (prints COV/FAIL/SAMPLE lines)
//        ratmc replay <op> <a> <b> [recipeA recipeB]
#include <common/numbers/FastRational.h>
#include <gmpxx.h>
#include <cstdio>
#include <cstring>
#include <map>
#include <set>
#include <string>
#include <vector>
#include <functional>
#include <csetjmp>
#include <csignal>
using namespace opensmt;

static std::vector<mpz_class> boundary() {
    std::vector<mpz_class> v;
    auto add = [&](mpz_class x) { v.push_back(x); v.push_back(-x); };
    v.push_back(0);
    for (int k : {1, 2, 3, 7, 12}) add(k);
    mpz_class one(1);
    mpz_class p15 = one << 15, p16 = one << 16, p31 = one << 31, p32 = one << 32, p53 = one << 53, p63 = one << 63, p64 = one << 64;
    for (int d = -2; d <= 1; d++) { add(p31 + d); add(p32 + d); add(p63 + d); }
    add(p15); add(p16 + 1); add(p53); add(p53 + 1); add(p64); add(p64 + 3); add(p31 * 3 + 1); add(mpz_class("1000000007")); add(mpz_class("2147483629")); // primes
    add(mpz_class(46341)); // sqrt(2^31) + 1: products cross the word bound
    std::set<std::string> seen; std::vector<mpz_class> r;
    for (auto & x : v) if (seen.insert(x.get_str()).second) r.push_back(x);
    return r;
}

static FastRational mk(mpq_class const & q) { return FastRational(q.get_str().c_str()); }
static const mpq_class BIG("36893488147419103245"); // 2^65 + 13

// preparation recipes: same value, different hidden state
static const int NRECIPES = 5;
static FastRational prep(mpq_class const & q, int recipe) {
    switch (recipe) {
        case 0: return mk(q);
        case 1: { FastRational f = mk(q); FastRational big = mk(BIG); (void)(f < big); (void)(f == big); FastRational t = f * big; (void)t; return f; } // word + valid mpq copy
        case 2: { FastRational f = mk(q + BIG); f -= mk(BIG); return f; }              // came back from the mpq world
        case 3: { FastRational f = mk(BIG); f = mk(q); return f; }                      // copy-assigned over a big value
        default: { FastRational t = mk(BIG + 1); FastRational u = std::move(t); (void)u; t = mk(q); return t; } // moved-from and reused
    }
}

static std::map<std::string, long> nfail;
static std::map<std::string, long> cov;
static int printed = 0;
static void fail(std::string const & cls, std::string const & detail) {
    long & n = nfail[cls];
    if (n++ < 3) { printf("FAIL\t%s\t%s\n", cls.c_str(), detail.c_str()); printed++; }
}

// full representation check of f against the exact value q
static bool repOk(FastRational const & f, mpq_class const & q, std::string & why) {
    bool w = f.wordPartValid(), m = f.mpqPartValid();
    if (!w && !m) { why = "neither representation valid"; return false; }
    if (w) {
        if (f.den == 0) { why = "zero denominator"; return false; }
        mpq_class wq(mpz_class((long)f.num), mpz_class((unsigned long)f.den));
        mpz_class g; mpz_gcd(g.get_mpz_t(), wq.get_num_mpz_t(), wq.get_den_mpz_t());
        if (g != 1 && !(f.num == 0 && f.den == 1)) { why = "word part not reduced"; return false; }
        wq.canonicalize();
        if (wq != q) { why = "word part holds " + wq.get_str(); return false; }
    }
    if (m) {
        mpq_class mq(f.mpq);
        mpq_class c = mq; c.canonicalize();
        if (mq.get_num() != c.get_num() || mq.get_den() != c.get_den()) { why = "mpq part not canonical"; return false; }
        if (mq != q) { why = "mpq part holds " + mq.get_str(); return false; }
    }
    if (!w) {
        if (q.get_num().fits_sint_p() && q.get_den().fits_uint_p()) { why = "value fits a word but only the mpq part is valid"; return false; }
    }
    return true;
}

static uint32_t hashOf(mpq_class const & q) { return mk(q).getHashValue(); }

static sigjmp_buf trapEnv;
static void onTrap(int) { siglongjmp(trapEnv, 1); }

static std::string R(int ra, int rb) { return " recipes=" + std::to_string(ra) + "," + std::to_string(rb); }

static void binaryOps(mpq_class const & qa, mpq_class const & qc, int ra, int rb) {
    std::string w = qa.get_str() + " " + qc.get_str() + R(ra, rb);
    std::string why;
    FastRational a = prep(qa, ra), c = prep(qc, rb);
    struct Op { const char * name; std::function<FastRational()> f; mpq_class want; bool ok; };
    bool nz = qc != 0;
    Op ops[] = {
        {"+", [&] { return a + c; }, qa + qc, true}, {"-", [&] { return a - c; }, qa - qc, true},
        {"*", [&] { return a * c; }, qa * qc, true}, {"/", [&] { return a / c; }, nz ? mpq_class(qa / qc) : mpq_class(0), nz},
        {"+=", [&] { FastRational t = prep(qa, ra); t += c; return t; }, qa + qc, true}, {"-=", [&] { FastRational t = prep(qa, ra); t -= c; return t; }, qa - qc, true},
        {"*=", [&] { FastRational t = prep(qa, ra); t *= c; return t; }, qa * qc, true}, {"/=", [&] { FastRational t = prep(qa, ra); t /= c; return t; }, nz ? mpq_class(qa / qc) : mpq_class(0), nz},
    };
    for (auto & op : ops) {
        if (!op.ok) continue;
        cov["ops"]++;
        FastRational r = op.f();
        if (!repOk(r, op.want, why)) fail(std::string("rational:") + op.name, w + " want " + op.want.get_str() + ": " + why);
        else if (r.getHashValue() != hashOf(op.want)) fail(std::string("rational:hash-after-") + op.name, w);
        // operands must be unchanged
        if (!repOk(a, qa, why)) fail(std::string("rational:operand-clobbered-by-") + op.name, w + ": " + why);
        if (!repOk(c, qc, why)) fail(std::string("rational:operand-clobbered-by-") + op.name, w + ": " + why);
    }
    cov["ops"] += 8;
    int cm = cmp(qa, qc), fc = a.compare(c);
    if ((cm < 0) != (fc < 0) || (cm > 0) != (fc > 0)) fail("rational:compare", w);
    if ((a == c) != (cm == 0)) fail("rational:==", w);
    if ((a != c) != (cm != 0)) fail("rational:!=", w);
    if ((a < c) != (cm < 0)) fail("rational:<", w);
    if ((a <= c) != (cm <= 0)) fail("rational:<=", w);
    if ((a > c) != (cm > 0)) fail("rational:>", w);
    if ((a >= c) != (cm >= 0)) fail("rational:>=", w);
    if (cm == 0 && (a.getHashValue() != c.getHashValue() || a.wordPartValid() != c.wordPartValid())) fail("rational:equal-values-differ-in-hash-or-representation", w);
}

static void unaryOps(mpq_class const & qa, int ra) {
    std::string w = qa.get_str() + R(ra, 0), why;
    FastRational a = prep(qa, ra);
    cov["ops"] += 12;
    if (!repOk(a, qa, why)) fail("rational:construct", w + ": " + why);
    if (!repOk(-a, -qa, why)) fail("rational:unary-", w + ": " + why);
    { FastRational t = prep(qa, ra); t.negate(); if (!repOk(t, -qa, why)) fail("rational:negate", w + ": " + why); }
    if (a.sign() != sgn(qa)) fail("rational:sign", w);
    mpz_class fl, ce;
    mpz_fdiv_q(fl.get_mpz_t(), qa.get_num_mpz_t(), qa.get_den_mpz_t());
    mpz_cdiv_q(ce.get_mpz_t(), qa.get_num_mpz_t(), qa.get_den_mpz_t());
    if (!repOk(a.floor(), mpq_class(fl), why)) fail("rational:floor", w + ": " + why);
    if (!repOk(a.ceil(), mpq_class(ce), why)) fail("rational:ceil", w + ": " + why);
    if (!repOk(a.get_num(), mpq_class(qa.get_num()), why)) fail("rational:get_num", w + ": " + why);
    if (!repOk(a.get_den(), mpq_class(qa.get_den()), why)) fail("rational:get_den", w + ": " + why);
    if (a.isInteger() != (qa.get_den() == 1)) fail("rational:isInteger", w);
    if (a.isZero() != (qa == 0)) fail("rational:isZero", w);
    if (a.isOne() != (qa == 1)) fail("rational:isOne", w);
    if (qa != 0 && !repOk(a.inverse(), 1 / qa, why)) fail("rational:inverse", w + ": " + why);
    if (a.getHashValue() != hashOf(qa)) fail("rational:hash", w);
    { mpq_class back(a.get_str()); back.canonicalize(); if (back != qa) fail("rational:get_str", w + " printed " + a.get_str()); }
    { FastRational cp(a); if (!repOk(cp, qa, why)) fail("rational:copy", w + ": " + why); FastRational mv(std::move(cp)); if (!repOk(mv, qa, why)) fail("rational:move", w + ": " + why); }
    if (abs(a).getMpq() != abs(qa)) fail("rational:abs", w);
    if (!repOk(a, qa, why)) fail("rational:operand-clobbered-by-unary", w + ": " + why);
}

static void integerOps(mpz_class const & n, mpz_class const & d, int ra, int rb) {
    std::string w = n.get_str() + " " + d.get_str() + R(ra, rb), why;
    FastRational fn = prep(mpq_class(n), ra), fd = prep(mpq_class(d), rb);
    auto guarded = [&](const char * name, std::function<FastRational()> f, mpz_class const & want) {
        cov["ops"]++;
        if (sigsetjmp(trapEnv, 1) == 0) {
            FastRational r = f();
            if (!repOk(r, mpq_class(want), why)) fail(std::string("rational:") + name, w + " want " + want.get_str() + ": " + why + " got " + r.get_str());
        } else {
            fail(std::string("rational:") + name + ":trap", w + " (SIGFPE)");
        }
    };
    mpz_class g, l, q, r;
    if (!(n == 0 && d == 0)) { mpz_gcd(g.get_mpz_t(), n.get_mpz_t(), d.get_mpz_t()); guarded("gcd", [&] { return gcd(fn, fd); }, g); }
    mpz_lcm(l.get_mpz_t(), n.get_mpz_t(), d.get_mpz_t());
    guarded("lcm", [&] { return lcm(fn, fd); }, l);
    if (d != 0) {
        mpz_fdiv_q(q.get_mpz_t(), n.get_mpz_t(), d.get_mpz_t());
        guarded("fdiv_q", [&] { return fastrat_fdiv_q(fn, fd); }, q);
        mpz_fdiv_r(r.get_mpz_t(), n.get_mpz_t(), d.get_mpz_t()); // remainder with the sign of the divisor (documented convention of operator%)
        guarded("%", [&] { FastRational x = prep(mpq_class(n), ra); return x % fd; }, r);
        if (r == 0) guarded("divexact", [&] { return divexact(fn, fd); }, q);
    }
}

int main(int argc, char ** argv) {
    signal(SIGFPE, onTrap);
    if (argc >= 5 && !strcmp(argv[1], "replay")) {
        std::string op = argv[2]; mpq_class a(argv[3]), b(argv[4]); a.canonicalize(); b.canonicalize();
        int ra = argc > 5 ? atoi(argv[5]) : 0, rb = argc > 6 ? atoi(argv[6]) : 0;
        unaryOps(a, ra); binaryOps(a, b, ra, rb);
        if (a.get_den() == 1 && b.get_den() == 1) integerOps(a.get_num(), b.get_num(), ra, rb);
        printf("replay: %d failure lines\n", printed);
        return printed ? 1 : 0;
    }
    bool thorough = argc > 1 && !strcmp(argv[1], "thorough");
    int shard = argc > 2 ? atoi(argv[2]) : 0, nsh = argc > 3 ? atoi(argv[3]) : 1;
    auto b = boundary();
    std::vector<mpq_class> V; std::set<std::string> seen;
    for (auto & n : b) for (auto & d : b) if (d > 0) { mpq_class q(n, d); q.canonicalize(); if (seen.insert(q.get_str()).second) V.push_back(q); }
    // sub-alphabet for recipe products and chains
    std::vector<mpq_class> S;
    for (const char * s : {"0", "1", "-1", "2", "-3", "1/2", "-7/3", "2147483647", "-2147483648", "2147483648", "4294967295", "4294967296", "46341", "1/2147483647", "1/4294967295",
                           "-2147483647/2", "9223372036854775807", "-9223372036854775808", "18446744073709551616", "3/4294967296", "1000000007/12", "2147483629/2147483647"}) {
        mpq_class q(s); q.canonicalize(); S.push_back(q);
    }
    cov["boundary_integers"] = b.size(); cov["values"] = V.size(); cov["sub_alphabet"] = S.size();
    long idx = 0;
    // (1) all ordered pairs of V, fresh operands; unary ops under every recipe
    for (size_t i = 0; i < V.size(); i++) {
        if ((long)(i % nsh) != shard) continue;
        for (int ra = 0; ra < NRECIPES; ra++) unaryOps(V[i], ra);
        for (size_t j = 0; j < V.size(); j++) { binaryOps(V[i], V[j], 0, 0); cov["pairs"]++; }
        if (thorough) for (size_t j = 0; j < V.size(); j++) for (int ra = 0; ra < NRECIPES; ra++) for (int rb = 0; rb < NRECIPES; rb++) if (ra || rb) { binaryOps(V[i], V[j], ra, rb); cov["pairs"]++; }
    }
    // (2) sub-alphabet under all recipe pairs
    for (size_t i = 0; i < S.size(); i++) for (size_t j = 0; j < S.size(); j++) {
        if ((idx++ % nsh) != shard) continue;
        for (int ra = 0; ra < NRECIPES; ra++) for (int rb = 0; rb < NRECIPES; rb++) { binaryOps(S[i], S[j], ra, rb); cov["pairs"]++; }
    }
    // (3) integer helpers on all pairs of B under all recipe pairs
    for (size_t i = 0; i < b.size(); i++) for (size_t j = 0; j < b.size(); j++) {
        if ((idx++ % nsh) != shard) continue;
        for (int ra = 0; ra < NRECIPES; ra++) for (int rb = 0; rb < NRECIPES; rb++) { integerOps(b[i], b[j], ra, rb); cov["int_pairs"]++; }
    }
    // (4) depth-2 chains: x = a; x op1= c (in place, hidden state kept); then x op2 e and x op2= e
    const char * opn[] = {"+", "-", "*", "/"};
    for (size_t i = 0; i < S.size(); i++) for (size_t j = 0; j < S.size(); j++) {
        if ((idx++ % nsh) != shard) continue;
        for (int ra = 0; ra < NRECIPES; ra++) for (int o1 = 0; o1 < 4; o1++) {
            if (o1 == 3 && S[j] == 0) continue;
            mpq_class q1 = o1 == 0 ? mpq_class(S[i] + S[j]) : o1 == 1 ? mpq_class(S[i] - S[j]) : o1 == 2 ? mpq_class(S[i] * S[j]) : mpq_class(S[i] / S[j]);
            for (size_t k = 0; k < S.size(); k++) for (int o2 = 0; o2 < 4; o2++) {
                if (o2 == 3 && S[k] == 0) continue;
                FastRational x = prep(S[i], ra), c = mk(S[j]), e = mk(S[k]);
                switch (o1) { case 0: x += c; break; case 1: x -= c; break; case 2: x *= c; break; default: x /= c; }
                mpq_class q2 = o2 == 0 ? mpq_class(q1 + S[k]) : o2 == 1 ? mpq_class(q1 - S[k]) : o2 == 2 ? mpq_class(q1 * S[k]) : mpq_class(q1 / S[k]);
                FastRational y = o2 == 0 ? x + e : o2 == 1 ? x - e : o2 == 2 ? x * e : x / e;
                std::string why; cov["chains"]++;
                std::string w = S[i].get_str() + " " + opn[o1] + "= " + S[j].get_str() + " ; " + opn[o2] + " " + S[k].get_str() + R(ra, 0);
                if (!repOk(y, q2, why)) fail(std::string("rational:chain:") + opn[o1] + "=then" + opn[o2], w + " want " + q2.get_str() + ": " + why);
                if (x.compare(mk(q1)) != 0 || !(x == mk(q1))) fail(std::string("rational:chain-compare:") + opn[o1] + "=", w);
                switch (o2) { case 0: x += e; break; case 1: x -= e; break; case 2: x *= e; break; default: x /= e; }
                if (!repOk(x, q2, why)) fail(std::string("rational:chain:") + opn[o1] + "=then" + opn[o2] + "=", w + " want " + q2.get_str() + ": " + why);
            }
        }
    }
    for (auto & [k, v] : cov) printf("COV\t%s\t%ld\n", k.c_str(), v);
    for (auto & [k, v] : nfail) printf("FAILCOUNT\t%s\t%ld\n", k.c_str(), v);
    if (shard == 0) {
        printf("SAMPLE\tbinary ops on (%s , %s) under recipes 0..4\n", V[V.size() / 3].get_str().c_str(), V[V.size() / 2].get_str().c_str());
        printf("SAMPLE\tgcd/lcm/fdiv_q/%%/divexact on (%s , %s)\n", b[5].get_str().c_str(), b[b.size() - 3].get_str().c_str());
        printf("SAMPLE\tchain %s += %s ; * %s\n", S[7].get_str().c_str(), S[3].get_str().c_str(), S[11].get_str().c_str());
    }
    return 0;
}
