// tsolvermc: exhaustive assert / backtrack / check / deduce sequences on the real theory-solver stack
// (Theory + TermMapper + THandler) over a 6-atom pool per theory (property C22).
// usage: tsolvermc atoms <kind>                                  prints "DECLS <text>" and "ATOM <i> <smtlib>"
//        tsolvermc run <kind> <depth> <tablefile|-> <shard> <nshards>
// kinds: lra lia idl rdl uf ax uflra
// VERIF_NO_ACCESS_CONTROL  (resets the process-global Enode::cgid_ctr before each fresh stack: it is never reset by the
// library, every new Egraph allocates up to it, and 10^6 stacks in one process would otherwise be quadratic)
// table file: one line per partial assignment "v1 v2 ... v6 R" with vi in {0 unassigned, 1 true, 2 false} and
// R = 1 if the literal set is theory-inconsistent, 0 if consistent, 2 if the reference could not decide.
#include <logics/ArithLogic.h>
#include <logics/LATheory.h>
#include <logics/UFLATheory.h>
#include <logics/ArrayTheory.h>
#include <logics/LogicFactory.h>
#include <logics/Theory.h>
#include <tsolvers/LATHandler.h>
#include <tsolvers/IDLTHandler.h>
#include <tsolvers/RDLTHandler.h>
#include <tsolvers/THandler.h>
#include <tsolvers/egraph/Enode.h>
#include <cnfizers/TermMapper.h>
#include <smtsolvers/CoreSMTSolver.h>
#include <cstdio>
#include <cstring>
#include <fstream>
#include <map>
#include <memory>
#include <set>
#include <sstream>
#include <string>
#include <vector>
#include <algorithm>
using namespace opensmt;

static std::string KIND;
static const int N = 6;

struct Stack {
    SMTConfig cfg; std::unique_ptr<Logic> logic; std::unique_ptr<Theory> theory; std::unique_ptr<TermMapper> tm; std::unique_ptr<THandler> th;
    std::vector<PTRef> atoms; std::vector<Lit> lits; vec<Lit> trail; vec<VarData> vardata;
    bool conflict = false;
    Stack() {
        Enode::cgid_ctr = cgId_Nil + 1;
        std::string k = KIND;
        Logic_t lt = k == "lra" ? Logic_t::QF_LRA : k == "lia" ? Logic_t::QF_LIA : k == "idl" ? Logic_t::QF_IDL : k == "rdl" ? Logic_t::QF_RDL : k == "uf" ? Logic_t::QF_UF : k == "ax" ? Logic_t::QF_AX : Logic_t::QF_UFLRA;
        logic.reset(LogicFactory::getInstance(lt));
        Logic & L = *logic;
        if (k == "lra" || k == "lia") theory.reset(new LATheory<ArithLogic, LATHandler>(cfg, dynamic_cast<ArithLogic &>(L)));
        else if (k == "idl") theory.reset(new LATheory<ArithLogic, IDLTHandler>(cfg, dynamic_cast<ArithLogic &>(L)));
        else if (k == "rdl") theory.reset(new LATheory<ArithLogic, RDLTHandler>(cfg, dynamic_cast<ArithLogic &>(L)));
        else if (k == "uf") theory.reset(new UFTheory(cfg, L));
        else if (k == "ax") theory.reset(new ArrayTheory(cfg, L));
        else theory.reset(new UFLATheory(cfg, dynamic_cast<ArithLogic &>(L)));
        tm.reset(new TermMapper(L)); th.reset(new THandler(*theory, *tm));
        if (k == "uf") {
            SRef U = L.declareUninterpretedSort("U");
            PTRef a = L.mkVar(U, "a"), b = L.mkVar(U, "b"), c = L.mkVar(U, "c");
            SymRef f = L.declareFun("f", U, {U}), P = L.declareFun("P", L.getSort_bool(), {U});
            auto F = [&](PTRef x) { vec<PTRef> v; v.push(x); return L.mkUninterpFun(f, std::move(v)); };
            auto PP = [&](PTRef x) { vec<PTRef> v; v.push(x); return L.mkUninterpFun(P, std::move(v)); };
            atoms = {L.mkEq(a, b), L.mkEq(F(a), F(b)), L.mkEq(b, c), L.mkEq(F(F(a)), a), PP(a), PP(F(c))};
        } else if (k == "ax") {
            SRef I = L.declareUninterpretedSort("I"), E = L.declareUninterpretedSort("E"); SRef AS = L.getArraySort(I, E);
            PTRef a = L.mkVar(AS, "a"), b = L.mkVar(AS, "b"), i = L.mkVar(I, "i"), j = L.mkVar(I, "j"), e = L.mkVar(E, "e");
            auto sel = [&](PTRef x, PTRef y) { vec<PTRef> v; v.push(x); v.push(y); return L.mkSelect(std::move(v)); };
            auto sto = [&](PTRef x, PTRef y, PTRef z) { vec<PTRef> v; v.push(x); v.push(y); v.push(z); return L.mkStore(std::move(v)); };
            atoms = {L.mkEq(b, sto(a, i, e)), L.mkEq(sel(b, i), e), L.mkEq(i, j), L.mkEq(sel(b, j), sel(a, j)), L.mkEq(a, b), L.mkEq(sel(a, i), e)};
        } else {
            ArithLogic & A = dynamic_cast<ArithLogic &>(L);
            bool isInt = k == "lia" || k == "idl";
            PTRef x = isInt ? A.mkIntVar("x") : A.mkRealVar("x"), y = isInt ? A.mkIntVar("y") : A.mkRealVar("y"), z = isInt ? A.mkIntVar("z") : A.mkRealVar("z");
            auto C = [&](char const * s) { return isInt ? A.mkIntConst(FastRational(s)) : A.mkRealConst(FastRational(s)); };
            if (k == "idl" || k == "rdl")
                // x->y->z chain with two parallel x-z edges of different weight and a closing edge: deductions have alternative paths
                atoms = {A.mkLeq(A.mkMinus(x, y), C("0")), A.mkLeq(A.mkMinus(y, z), C("0")), A.mkLeq(A.mkMinus(x, z), C("1")), A.mkLeq(A.mkMinus(x, z), C("-1")), A.mkLeq(A.mkMinus(z, x), C("-2")), A.mkLeq(A.mkMinus(z, y), C("0"))};
            else if (k == "lra")
                atoms = {A.mkLeq(x, y), A.mkLeq(A.mkPlus(y, C("1")), x), A.mkLeq(C("3"), A.mkPlus(x, y)), A.mkLeq(A.mkTimes(C("2"), x), C("3")), A.mkLeq(y, C("1")), A.mkLeq(C("2"), A.mkMinus(x, y))};
            else if (k == "lia")
                atoms = {A.mkLeq(x, y), A.mkLeq(A.mkPlus(y, C("1")), x), A.mkLeq(C("3"), A.mkPlus(x, y)), A.mkLeq(A.mkTimes(C("2"), x), C("3")), A.mkLeq(A.mkTimes(C("2"), x), A.mkPlus(A.mkTimes(C("2"), z), C("1"))), A.mkLeq(A.mkPlus(A.mkTimes(C("2"), z), C("1")), A.mkTimes(C("2"), x))};
            else { // uflra
                SymRef f = L.declareFun("f", A.getSort_real(), {A.getSort_real()});
                auto F = [&](PTRef t) { vec<PTRef> v; v.push(t); return L.mkUninterpFun(f, std::move(v)); };
                atoms = {A.mkLeq(x, y), A.mkLeq(y, x), L.mkEq(F(x), F(y)), A.mkLeq(F(x), C("0")), A.mkLeq(C("1"), F(y)), A.mkLeq(x, C("2"))};
            }
        }
        tm->getOrCreateLit(L.getTerm_true()); tm->getOrCreateLit(L.getTerm_false());
        for (PTRef a : atoms) { lits.push_back(tm->getOrCreateLit(a)); }
        vardata.growTo(64, VarData{CRef_Undef, 0});
        for (PTRef a : atoms) { th->declareAtom(a); }
    }
    // returns 1 if the theory reports an inconsistency
    int assertLit(Lit l) { trail.push(l); bool ok = th->assertLits(trail); if (!ok) { conflict = true; return 1; } return 0; }
    // 0 consistent, 1 inconsistent, 2 no verdict (incomplete: unknown or pending splits)
    int check(bool complete) {
        TRes r = th->check(complete);
        if (r == TRes::UNSAT) { conflict = true; return 1; }
        if (r != TRes::SAT) return 2;
        if (complete) { auto splits = th->getNewSplits(); if (!splits.empty()) return 2; }
        return 0;
    }
    void backtrack(int k) { trail.shrink(k); th->backtrack(trail.size()); conflict = false; }
    int indexOf(Lit l) { for (int i = 0; i < N; i++) if (var(lits[i]) == var(l)) return sign(l) != sign(lits[i]) ? -(i + 1) : (i + 1); return 0; }
};

static std::map<std::string, long> cov, nfail;
static void fail(std::string const & cls, std::string const & detail) { if (nfail[cls]++ < 3) printf("FAIL\t%s\t%s\n", cls.c_str(), detail.c_str()); }
static std::map<std::string, int> table;      // "v1..v6" -> 0/1/2
static std::map<std::string, int> freshCache;
static std::set<std::string> states;

static std::string keyOf(std::vector<int> const & cur) { std::string k(N, '0'); for (int s : cur) k[abs(s) - 1] = s > 0 ? '1' : '2'; return k; }

static int refVerdict(std::vector<int> const & cur) {    // absolute reference, 2 if unknown
    if (table.empty()) return 2;
    auto it = table.find(keyOf(cur)); return it == table.end() ? 2 : it->second;
}
static int freshVerdict(std::vector<int> cur) {           // fresh stack, canonical order, complete check after each literal
    std::sort(cur.begin(), cur.end(), [](int a, int b) { return abs(a) < abs(b); });
    std::string k = keyOf(cur);
    auto it = freshCache.find(k); if (it != freshCache.end()) return it->second;
    Stack st; int v = 0;
    for (int s : cur) { Lit l = st.lits[abs(s) - 1]; if (s < 0) l = ~l; if (st.assertLit(l)) { v = 1; break; } int c = st.check(true); if (c == 1) { v = 1; break; } if (c == 2) v = 2; }
    return freshCache[k] = v;
}
// LIA: check() is complete only together with branch-and-bound splits.  Arrays: the solver relies on the read-over-write
// instances that ArrayTheory adds to the formula during preprocessing, so a bare ArraySolver::check is not complete.
// For these only "inconsistent => really inconsistent" is judged.
static bool incompleteKind() { return KIND == "lia" || KIND == "ax"; }
static std::string show(std::vector<int> const & h) { std::string s; for (int x : h) { s += x >= 100 ? "bt" + std::to_string(x - 100) : x == 99 ? "check" : x == 98 ? "check0" : x == 97 ? "deduce" : (x > 0 ? "+a" : "-a") + std::to_string(abs(x)); s += " "; } return s; }

// judge an "inconsistent" verdict for the literal set cur
static void judgeInconsistent(std::vector<int> const & hist, std::vector<int> const & cur, const char * how, bool freeOnly) {
    int r = refVerdict(cur), f = freshVerdict(cur);
    cov["verdicts_inconsistent"]++;
    std::string tag = freeOnly ? ":free-only" : "";
    if (r == 0) fail(std::string("tsolver:inconsistent-for-consistent-set:") + how + tag, show(hist) + " set=" + keyOf(cur) + " (reference table)");
    else if (r == 2 && f == 0 && !incompleteKind()) fail(std::string("tsolver:inconsistent-but-fresh-consistent:") + how + tag, show(hist) + " set=" + keyOf(cur));
}
static void judgeConsistent(std::vector<int> const & hist, std::vector<int> const & cur, bool freeOnly) {
    if (incompleteKind()) return;
    int r = refVerdict(cur), f = freshVerdict(cur);
    cov["verdicts_consistent"]++;
    std::string tag = freeOnly ? ":free-only" : "";
    if (r == 1) fail("tsolver:consistent-for-inconsistent-set" + tag, show(hist) + " set=" + keyOf(cur) + " (reference table)");
    else if (r == 2 && f == 1) fail("tsolver:consistent-but-fresh-inconsistent" + tag, show(hist) + " set=" + keyOf(cur));
}

// replays hist on a fresh stack; judges the outcome of the LAST operation; returns the state for the DFS
struct Outcome { bool conflict; std::vector<int> cur; bool freeOnly; };
static Outcome replay(std::vector<int> const & hist) {
    Stack st; std::vector<int> cur; cov["sequences"]++;
    bool uncheckedBatch = false, freeOnly = false;
    size_t checkedUpTo = 0;   // number of asserted literals that have been followed by a check() that did not report a conflict
    for (size_t i = 0; i < hist.size(); i++) {
        int op = hist[i]; bool last = i + 1 == hist.size();
        if (op >= 100) {
            int k = op - 100;
            // the SAT engines check every batch before they decide again, so they never keep literals of an unchecked batch asserted
            if (cur.size() - k > checkedUpTo) freeOnly = true;
            st.backtrack(k); cur.resize(cur.size() - k); checkedUpTo = std::min(checkedUpTo, cur.size()); uncheckedBatch = false; continue;
        }
        if (op == 99 || op == 98) {
            int v = st.check(op == 99); uncheckedBatch = false;
            if (v != 1) checkedUpTo = cur.size();
            if (last) { if (v == 1) judgeInconsistent(hist, cur, "check", freeOnly); else if (v == 0 && op == 99) judgeConsistent(hist, cur, freeOnly); }
            if (last && v == 1) {
                vec<Lit> confl; int ml = 0; st.th->getConflict(confl, st.vardata, ml);
                std::vector<int> cs; bool subset = true;
                for (Lit l : confl) { int ix = st.indexOf(~l); cs.push_back(ix); if (ix == 0 || std::find(cur.begin(), cur.end(), ix) == cur.end()) subset = false; }
                cov["conflicts"]++;
                if (!subset) fail("tsolver:conflict-not-subset-of-asserted", show(hist));
                else { int r = refVerdict(cs), f = freshVerdict(cs); if (r == 0 || (r == 2 && f == 0 && !incompleteKind())) fail("tsolver:conflict-set-is-consistent", show(hist) + " conflict=" + keyOf(cs)); }
            }
            continue;
        }
        if (op == 97) {   // take one deduction and assert it
            Lit d = st.th->getDeduction();
            if (d == lit_Undef) { if (last) cov["deduce_none"]++; continue; }
            int ix = st.indexOf(d);
            if (ix == 0) continue;
            bool already = std::find(cur.begin(), cur.end(), ix) != cur.end() || std::find(cur.begin(), cur.end(), -ix) != cur.end();
            if (last) {
                cov["deductions"]++;
                std::vector<int> neg = cur; if (!already) neg.push_back(-ix);
                if (std::find(cur.begin(), cur.end(), -ix) != cur.end()) { fail("tsolver:deduction-contradicts-asserted-literal", show(hist)); }
                else if (!already) {
                    int r = refVerdict(neg), f = freshVerdict(neg);
                    if (r == 0 || (r == 2 && f == 0 && !incompleteKind())) fail("tsolver:deduction-not-entailed", show(hist) + " deduced " + std::to_string(ix) + " from " + keyOf(cur));
                    // reason
                    vec<Lit> reason; st.th->getReason(d, reason);
                    std::vector<int> rs; bool subset = true;
                    for (int j = 1; j < reason.size(); j++) { int rx = st.indexOf(~reason[j]); rs.push_back(rx); if (rx == 0 || std::find(cur.begin(), cur.end(), rx) == cur.end()) subset = false; }
                    cov["reasons"]++;
                    if (reason.size() == 0 || st.indexOf(reason[0]) != ix) fail("tsolver:reason-head-is-not-the-deduced-literal", show(hist));
                    else if (!subset) fail("tsolver:reason-not-subset-of-asserted", show(hist));
                    else { rs.push_back(-ix); int r2 = refVerdict(rs), f2 = freshVerdict(rs); if (r2 == 0 || (r2 == 2 && f2 == 0 && !incompleteKind())) fail("tsolver:reason-does-not-entail", show(hist) + " reason+neg=" + keyOf(rs)); }
                }
            }
            if (!already) { cur.push_back(ix); int v = st.assertLit(d); uncheckedBatch = true; (void)v; }
            continue;
        }
        Lit l = st.lits[abs(op) - 1]; if (op < 0) l = ~l;
        cur.push_back(op);
        int v = st.assertLit(l); uncheckedBatch = true;
        if (last && v == 1) judgeInconsistent(hist, cur, "assert", freeOnly);
    }
    states.insert(keyOf(cur) + (st.conflict ? "!" : ""));
    return {st.conflict, cur, freeOnly};
}

static int SHARD = 0, NSH = 1; static long topIdx = 0;
static void dfs(std::vector<int> & hist, Outcome const & o, int depth, int maxd) {
    if (depth == maxd) return;
    auto step = [&](int op) {
        if (depth == 0 && (topIdx++ % NSH) != SHARD) return;
        hist.push_back(op); Outcome n = replay(hist); dfs(hist, n, depth + 1, maxd); hist.pop_back(); };
    if (!o.conflict) {
        for (int i = 1; i <= N; i++) {
            bool used = false; for (int c : o.cur) if (abs(c) == i) used = true;
            if (used) continue;
            step(i); step(-i);
        }
        step(99); step(98); step(97);
    }
    for (int k = 1; k <= (int)o.cur.size(); k++) step(100 + k);
}

int main(int argc, char ** argv) {
    std::string mode = argc > 1 ? argv[1] : "";
    KIND = argc > 2 ? argv[2] : "lra";
    if (mode == "atoms") {
        Stack st;
        for (int i = 0; i < N; i++) printf("ATOM\t%d\t%s\n", i, st.logic->termToSMT2String(st.atoms[i]).c_str());
        return 0;
    }
    int maxd = atoi(argv[3]); std::string tf = argv[4]; SHARD = atoi(argv[5]); NSH = atoi(argv[6]);
    if (tf != "-") { std::ifstream in(tf); std::string line; while (std::getline(in, line)) { std::istringstream is(line); std::string k; int r; is >> k >> r; table[k] = r; } }
    try {
        std::vector<int> hist; Outcome o{false, {}, false};
        // with few top-level operations the shard unit is the first TWO operations
        dfs(hist, o, 0, maxd);
    } catch (std::exception & e) { printf("FAIL\tharness:exception\t%s\nFAILCOUNT\tharness:exception\t1\n", e.what()); }
    for (auto & [k, v] : cov) printf("COV\t%s\t%ld\n", k.c_str(), v);
    for (auto & s : states) printf("STATE\t%s:%s\n", KIND.c_str(), s.c_str());
    for (auto & [k, v] : nfail) printf("FAILCOUNT\t%s\t%ld\n", k.c_str(), v);
    if (SHARD == 0) printf("SAMPLE\t%s: +a1 +a3 check bt1 -a2 deduce check  (each prefix replayed on a fresh stack)\n", KIND.c_str());
    return 0;
}
