// osmt_worker: runs many scripts through the REAL main() of opensmt (src/bin/opensmt.cc compiled with
// -Dmain=osmt_real_main) inside one process.  Protocol on fd 0 (requests) / fd 3 (responses), both binary,
// length-prefixed.  stdout/stderr of the solver go to files given on the command line (truncated per
// job) so that the driver can still read them when the worker dies in the middle of a job.
// VERIF_VARIANTS: rel asan
//
// request : u32 len | u8 mode | u8 trace | u32 nargs | (u32 n, bytes)* | u32 n, script | u32 nsplit | u32* splits
//   mode 0: script is written to <scratch>.smt2 and passed as last argv (file mode)
//   mode 1: pipe mode: argv gets "-p"; read(0,...) is served from the script according to the split plan
// response: u32 len | i32 status | u32 wall_us | u32 n, stdout | u32 n, stderr | u32 n, trace
#include <cstdio>
#include <cstdlib>
#include <cstring>
#include <cstdint>
#include <string>
#include <vector>
#include <iostream>
#include <chrono>
#include <unistd.h>
#include <fcntl.h>
#include <getopt.h>
#include <sys/syscall.h>
#include <sys/stat.h>
#include <sys/prctl.h>
#include <csignal>

#ifdef OPENSMT_VERIF
#include <common/VerifHooks.h>
#endif

extern int osmt_real_main(int, char **);
namespace opensmt { inline bool pipeExecution = false; }

// ---- stdin interposition for pipe mode -------------------------------------------------------------
static bool g_serve = false;
static std::string g_input;
static size_t g_pos = 0;
static std::vector<uint32_t> g_cuts;
static size_t g_cut_i = 0;
static int g_reads = 0;

extern "C" ssize_t read(int fd, void * buf, size_t n) {
    if (fd != 0 || !g_serve) return syscall(SYS_read, fd, buf, n);
    g_reads++;
    size_t lim = g_input.size();
    while (g_cut_i < g_cuts.size() && g_cuts[g_cut_i] <= g_pos) g_cut_i++;
    if (g_cut_i < g_cuts.size() && g_cuts[g_cut_i] < lim) lim = g_cuts[g_cut_i];
    size_t k = std::min(n, lim - g_pos);
    memcpy(buf, g_input.data() + g_pos, k);
    g_pos += k;
    return (ssize_t)k;
}

static bool readAll(int fd, void * p, size_t n) {
    char * c = (char *)p;
    while (n) {
        ssize_t r = syscall(SYS_read, fd, c, n);
        if (r <= 0) return false;
        c += r; n -= r;
    }
    return true;
}
static void writeAll(int fd, void const * p, size_t n) {
    char const * c = (char const *)p;
    while (n) {
        ssize_t r = ::write(fd, c, n);
        if (r <= 0) _exit(97);
        c += r; n -= r;
    }
}
static std::string slurp(int fd) {
    std::string s;
    off_t end = lseek(fd, 0, SEEK_END);
    if (end <= 0) return s;
    s.resize(end);
    lseek(fd, 0, SEEK_SET);
    size_t got = 0;
    while (got < (size_t)end) {
        ssize_t r = syscall(SYS_read, fd, s.data() + got, end - got);
        if (r <= 0) break;
        got += r;
    }
    s.resize(got);
    return s;
}
struct Rd {
    std::string const & b; size_t p = 0;
    uint32_t u32() { uint32_t v; memcpy(&v, b.data() + p, 4); p += 4; return v; }
    uint8_t u8() { return (uint8_t)b[p++]; }
    std::string str() { uint32_t n = u32(); std::string s = b.substr(p, n); p += n; return s; }
};
// optional trailing request field (C25, script level): i32 stopAt, i32 resetAfter.  A global stop request is placed before poll
// number stopAt of the run (polls of all check-sat commands are counted through) and withdrawn again before poll stopAt+resetAfter
// (resetAfter = 0: never): the schedules of a second thread calling notifyGlobalStop() and later resetGlobalStop().
namespace opensmt { void notifyGlobalStop(); void resetGlobalStop(); }
static long g_polls = 0, g_stopAt = -1, g_resetAfter = 0;
static void onSched(char const * tag) {
    if (std::strcmp(tag, "poll") != 0) return;
    if (g_polls == g_stopAt) opensmt::notifyGlobalStop();
    else if (g_resetAfter > 0 && g_polls == g_stopAt + g_resetAfter) opensmt::resetGlobalStop();
    g_polls++;
}
static void put32(std::string & o, uint32_t v) { o.append((char *)&v, 4); }
static void putstr(std::string & o, std::string const & s) { put32(o, s.size()); o += s; }

int main(int argc, char ** argv) {
    if (argc < 2) { fprintf(stderr, "usage: osmt_worker <scratch-prefix>\n"); return 2; }
    prctl(PR_SET_PDEATHSIG, SIGKILL); // a worker spinning in a diverging check-sat must not outlive its driver
    if (getppid() == 1) return 2;
    std::string pre = argv[1];
    std::string fOut = pre + ".out", fErr = pre + ".err", fTr = pre + ".trace", fScript = pre + ".smt2";
    int rfd = argc > 2 ? atoi(argv[2]) : 3; // responses
    int outFd = open(fOut.c_str(), O_RDWR | O_CREAT | O_TRUNC, 0600);
    int errFd = open(fErr.c_str(), O_RDWR | O_CREAT | O_TRUNC, 0600);
    int trFd = open(fTr.c_str(), O_RDWR | O_CREAT | O_TRUNC, 0600);
    if (outFd < 0 || errFd < 0 || trFd < 0) return 2;
    dup2(outFd, 1);
    dup2(errFd, 2);
    FILE * trFile = fdopen(trFd, "w");
    setvbuf(trFile, nullptr, _IOFBF, 1 << 16);
    for (;;) {
        uint32_t len;
        if (!readAll(0, &len, 4)) break;
        std::string req(len, '\0');
        if (!readAll(0, req.data(), len)) break;
        Rd r{req};
        int mode = r.u8();
        int trace = r.u8();
        uint32_t nargs = r.u32();
        std::vector<std::string> args;
        args.push_back("opensmt");
        for (uint32_t i = 0; i < nargs; i++) args.push_back(r.str());
        std::string script = r.str();
        uint32_t ns = r.u32();
        g_cuts.clear();
        for (uint32_t i = 0; i < ns; i++) g_cuts.push_back(r.u32());
        g_stopAt = -1; g_resetAfter = 0; g_polls = 0;
        if (r.p + 8 <= req.size()) { g_stopAt = (int32_t)r.u32(); g_resetAfter = (int32_t)r.u32(); }
        opensmt::resetGlobalStop();
#ifdef OPENSMT_VERIF
        opensmt::verif::setSched(g_stopAt >= 0 ? onSched : nullptr);
#endif
        // reset per-job state
        if (ftruncate(outFd, 0)) {}
        if (ftruncate(errFd, 0)) {}
        lseek(outFd, 0, SEEK_SET); lseek(errFd, 0, SEEK_SET);
        fflush(trFile);
        if (ftruncate(trFd, 0)) {}
        lseek(trFd, 0, SEEK_SET);
#ifdef OPENSMT_VERIF
        opensmt::verif::setSink(trace ? trFile : nullptr);
#endif
        if (mode == 0) {
            int fd = open(fScript.c_str(), O_WRONLY | O_CREAT | O_TRUNC, 0600);
            writeAll(fd, script.data(), script.size());
            close(fd);
            args.push_back(fScript);
            g_serve = false;
        } else {
            args.push_back("-p");
            g_input = script; g_pos = 0; g_cut_i = 0; g_reads = 0; g_serve = true;
        }
        std::vector<char *> av;
        for (auto & a : args) av.push_back(a.data());
        av.push_back(nullptr);
        optind = 0;
        opensmt::pipeExecution = false;
        auto t0 = std::chrono::steady_clock::now();
        int status = osmt_real_main((int)args.size(), av.data());
        auto t1 = std::chrono::steady_clock::now();
        fflush(stdout); fflush(stderr); std::cout.flush(); std::cerr.flush();
        g_serve = false;
#ifdef OPENSMT_VERIF
        opensmt::verif::setSink(nullptr);
#endif
        fflush(trFile);
        std::string resp;
        put32(resp, (uint32_t)status);
        put32(resp, (uint32_t)std::chrono::duration_cast<std::chrono::microseconds>(t1 - t0).count());
        putstr(resp, slurp(outFd));
        putstr(resp, slurp(errFd));
        putstr(resp, trace ? slurp(trFd) : std::string());
        put32(resp, (uint32_t)g_polls);      // polls counted in this run (0 unless a stop position was given)
        uint32_t rl = resp.size();
        writeAll(rfd, &rl, 4);
        writeAll(rfd, resp.data(), resp.size());
    }
    return 0;
}
