// stopmc: property C25 (asynchronous stop never produces a wrong answer).
// VERIF_VARIANTS: rel asan tsan
// The only communication between the stopping thread and the solver is one flag read at CoreSMTSolver::okContinue,
// which carries the scheduling point "poll" (OSMT_VERIF_SCHED).  A controlled scheduler runs the solver thread and a
// REAL second thread that performs notifyStop() / notifyGlobalStop(); control is handed to the stopper exactly before
// poll k, for EVERY k in 0..N (N = polls of the undisturbed run; k = N: after the last poll, before the model is read).
// Under sequential consistency these N+1 schedules are all distinguishable placements of one stop request.
// For the global flag the exploration continues from the stopped state: resetGlobalStop(), check() again, optionally
// stopped again at poll k2 (all k2), and so on up to <rounds> stop/resume rounds; the final undisturbed check must give
// the solo answer, and a model read after sat must satisfy every assertion.
//
// usage: stopmc run <quick|thorough> <shard> <nshards>      controlled exploration
//        stopmc race <reps> <nthreads>                      free-running stopper threads (TSan pass; not the deciding step)
//        stopmc replay <instance> <local|global> <k1> [k2 ...]
#include <api/GlobalStop.h>
#include <api/MainSolver.h>
#include <common/VerifHooks.h>
#include <logics/ArithLogic.h>
#include <models/Model.h>
#include <atomic>
#include <condition_variable>
#include <cstdio>
#include <cstring>
#include <functional>
#include <map>
#include <mutex>
#include <string>
#include <thread>
#include <vector>
using namespace opensmt;

static std::map<std::string, long> cov, nfail;
static void fail(std::string const & cls, std::string const & detail) { if (nfail[cls]++ < 3) printf("FAIL\t%s\t%s\n", cls.c_str(), detail.c_str()); }
static std::string ans(sstat r) { return r == s_True ? "sat" : r == s_False ? "unsat" : r == s_Undef ? "unknown" : "error"; }

// ---------------------------------------------------------------------------------------------------------------
// instances
struct Inst {
    std::string name; Logic_t lt;
    std::function<void(ArithLogic &, std::vector<PTRef> &)> build;   // appends the assertions
    std::vector<std::pair<char const *, char const *>> opts;
};

static std::vector<Inst> instances(bool thorough) {
    std::vector<Inst> v;
    auto php = [](int holes) { return [holes](ArithLogic & l, std::vector<PTRef> & as) {
        int P = holes + 1; std::vector<std::vector<PTRef>> x(P);
        for (int i = 0; i < P; i++) for (int j = 0; j < holes; j++) x[i].push_back(l.mkBoolVar(("p" + std::to_string(i) + "_" + std::to_string(j)).c_str()));
        for (int i = 0; i < P; i++) { vec<PTRef> c; for (PTRef t : x[i]) c.push(t); as.push_back(l.mkOr(std::move(c))); }
        for (int j = 0; j < holes; j++) for (int i = 0; i < P; i++) for (int k = i + 1; k < P; k++) as.push_back(l.mkOr(l.mkNot(x[i][j]), l.mkNot(x[k][j]))); }; };
    auto phpsat = [](int holes) { return [holes](ArithLogic & l, std::vector<PTRef> & as) {       // as many pigeons as holes: satisfiable
        int P = holes; std::vector<std::vector<PTRef>> x(P);
        for (int i = 0; i < P; i++) for (int j = 0; j < holes; j++) x[i].push_back(l.mkBoolVar(("p" + std::to_string(i) + "_" + std::to_string(j)).c_str()));
        for (int i = 0; i < P; i++) { vec<PTRef> c; for (PTRef t : x[i]) c.push(t); as.push_back(l.mkOr(std::move(c))); }
        for (int j = 0; j < holes; j++) for (int i = 0; i < P; i++) for (int k = i + 1; k < P; k++) as.push_back(l.mkOr(l.mkNot(x[i][j]), l.mkNot(x[k][j]))); }; };
    auto lra = [](bool sat) { return [sat](ArithLogic & l, std::vector<PTRef> & as) {
        std::vector<PTRef> x; for (int i = 0; i < 6; i++) x.push_back(l.mkRealVar(("x" + std::to_string(i)).c_str()));
        for (int i = 0; i + 1 < 6; i++) as.push_back(l.mkOr(l.mkLt(x[i], x[i + 1]), l.mkLt(l.mkPlus(x[i], l.getTerm_RealOne()), x[(i + 2) % 6])));
        if (sat) as.push_back(l.mkLeq(x[5], l.mkPlus(x[0], l.mkConst(l.getSort_real(), "10")))); else as.push_back(l.mkOr(l.mkLt(x[5], x[0]), l.mkEq(x[5], x[0])));
        if (!sat) { as.push_back(l.mkLt(x[5], x[0])); for (int i = 0; i + 1 < 6; i++) as.push_back(l.mkLt(x[i], x[i + 1])); } }; };
    auto lia = [](bool sat) { return [sat](ArithLogic & l, std::vector<PTRef> & as) {
        PTRef x = l.mkIntVar("x"), y = l.mkIntVar("y"), z = l.mkIntVar("z");
        auto c = [&](int n) { return l.mkIntConst(n); };
        as.push_back(l.mkAnd(l.mkLeq(c(0), x), l.mkLeq(x, c(7)))); as.push_back(l.mkAnd(l.mkLeq(c(0), y), l.mkLeq(y, c(7)))); as.push_back(l.mkAnd(l.mkLeq(c(0), z), l.mkLeq(z, c(7))));
        as.push_back(l.mkEq(l.mkPlus(l.mkTimes(c(2), x), l.mkTimes(c(3), y)), l.mkPlus(l.mkTimes(c(4), z), c(sat ? 5 : 1))));
        as.push_back(l.mkOr(l.mkLt(x, y), l.mkLt(y, z)));
        as.push_back(l.mkOr(l.mkEq(l.mkMod(x, c(2)), c(1)), l.mkEq(l.mkMod(y, c(3)), c(2))));
        if (!sat) { as.push_back(l.mkEq(l.mkMod(x, c(2)), c(0))); as.push_back(l.mkEq(l.mkMod(y, c(2)), c(0))); } }; };
    auto uf = [](bool sat) { return [sat](ArithLogic & l, std::vector<PTRef> & as) {
        SRef U = l.declareUninterpretedSort("U");
        std::vector<PTRef> a; for (int i = 0; i < 5; i++) a.push_back(l.mkVar(U, ("a" + std::to_string(i)).c_str()));
        SymRef f = l.declareFun("f", U, {U});
        auto F = [&](PTRef t) { return l.mkUninterpFun(f, {t}); };
        for (int i = 0; i + 1 < 5; i++) as.push_back(l.mkOr(l.mkEq(a[i], a[i + 1]), l.mkEq(F(a[i]), a[i + 1])));
        if (sat) as.push_back(l.mkNot(l.mkEq(a[0], a[4])));
        else { as.push_back(l.mkNot(l.mkEq(F(F(a[0])), F(F(a[4]))))); as.push_back(l.mkOr(l.mkEq(a[0], a[4]), l.mkEq(F(a[0]), F(a[4])))); }
        if (!sat) { for (int i = 0; i + 1 < 5; i++) as.push_back(l.mkEq(a[i], a[i + 1])); } }; };
    auto uflra = [](bool sat) { return [sat](ArithLogic & l, std::vector<PTRef> & as) {
        PTRef x = l.mkRealVar("x"), y = l.mkRealVar("y");
        SymRef f = l.declareFun("f", l.getSort_real(), {l.getSort_real()});
        auto F = [&](PTRef t) { return l.mkUninterpFun(f, {t}); };
        as.push_back(l.mkOr(l.mkLeq(x, y), l.mkLt(F(x), l.getTerm_RealZero()))); as.push_back(l.mkOr(l.mkLeq(y, x), l.mkLt(F(y), l.getTerm_RealZero())));
        as.push_back(l.mkOr(l.mkNot(l.mkEq(F(x), F(y))), l.mkLt(x, y)));
        as.push_back(l.mkLeq(l.getTerm_RealZero(), F(x)));
        if (!sat) { as.push_back(l.mkLeq(l.getTerm_RealZero(), F(y))); as.push_back(l.mkLeq(x, y)); as.push_back(l.mkLeq(y, x)); as.push_back(l.mkNot(l.mkEq(F(x), F(y)))); } }; };
    using O = std::vector<std::pair<char const *, char const *>>;
    O none{}, noninc{{SMTConfig::o_incremental, "0"}}, look{{SMTConfig::o_sat_pure_lookahead, "1"}}, picky{{SMTConfig::o_sat_picky, "1"}};
    v.push_back({"php3", Logic_t::QF_UF, php(3), none}); v.push_back({"php3-noninc", Logic_t::QF_UF, php(3), noninc});
    v.push_back({"php3-lookahead", Logic_t::QF_UF, php(3), look}); v.push_back({"phpsat4", Logic_t::QF_UF, phpsat(4), none});
    v.push_back({"phpsat4-noninc", Logic_t::QF_UF, phpsat(4), noninc}); v.push_back({"phpsat3-lookahead", Logic_t::QF_UF, phpsat(3), look});
    v.push_back({"lra-sat", Logic_t::QF_LRA, lra(true), none}); v.push_back({"lra-unsat", Logic_t::QF_LRA, lra(false), none});
    v.push_back({"lra-sat-noninc", Logic_t::QF_LRA, lra(true), noninc}); v.push_back({"lra-unsat-noninc", Logic_t::QF_LRA, lra(false), noninc});
    v.push_back({"lra-sat-lookahead", Logic_t::QF_LRA, lra(true), look}); v.push_back({"lra-unsat-picky", Logic_t::QF_LRA, lra(false), picky});
    v.push_back({"lia-sat", Logic_t::QF_LIA, lia(true), none}); v.push_back({"lia-unsat", Logic_t::QF_LIA, lia(false), none});
    v.push_back({"uf-sat", Logic_t::QF_UF, uf(true), none}); v.push_back({"uf-unsat", Logic_t::QF_UF, uf(false), none}); v.push_back({"uf-unsat-noninc", Logic_t::QF_UF, uf(false), noninc});
    v.push_back({"uflra-sat", Logic_t::QF_UFLRA, uflra(true), none}); v.push_back({"uflra-unsat", Logic_t::QF_UFLRA, uflra(false), none});
    if (thorough) {
        v.push_back({"php4", Logic_t::QF_UF, php(4), none}); v.push_back({"php4-noninc", Logic_t::QF_UF, php(4), noninc}); v.push_back({"phpsat5", Logic_t::QF_UF, phpsat(5), none});
        v.push_back({"lia-sat-noninc", Logic_t::QF_LIA, lia(true), noninc}); v.push_back({"uf-sat-lookahead", Logic_t::QF_UF, uf(true), look});
    }
    return v;
}

// ---------------------------------------------------------------------------------------------------------------
// controlled scheduler: two real threads, exactly one runs at a time
struct Sched {
    std::mutex m; std::condition_variable cv;
    int turn = 0; bool quit = false;          // 0: solver thread, 1: stopper thread
    std::function<void()> action;
    std::thread stopper;
    void start() {
        stopper = std::thread([this] {
            std::unique_lock lk(m);
            for (;;) {
                cv.wait(lk, [this] { return turn == 1 || quit; });
                if (quit) return;
                action();
                turn = 0; cv.notify_all();
            }
        });
    }
    void handoff() { std::unique_lock lk(m); turn = 1; cv.notify_all(); cv.wait(lk, [this] { return turn == 0; }); }
    void stop() { { std::unique_lock lk(m); quit = true; } cv.notify_all(); stopper.join(); }
};
static Sched sched;
static long polls, stopAt;
static void onPoint(char const * tag) {
    if (std::strcmp(tag, "poll") != 0) return;
    if (polls == stopAt) sched.handoff();
    polls++;
}

struct Outcome { std::vector<std::string> answers; std::vector<long> npolls; bool modelOk = true; std::string modelWhy; bool resumed = false; };

// one execution: check() stopped before poll ks[0]; for global stops: reset, check() stopped before poll ks[1], ...; a final
// undisturbed check for the global flag.  k < 0: no stop in that round.
static Outcome execute(Inst const & in, bool global, std::vector<long> const & ks) {
    Outcome o;
    resetGlobalStop();
    SMTConfig cfg; char const * msg = "ok";
    cfg.setOption(SMTConfig::o_produce_models, SMTOption(1), msg);
    for (auto & [k, val] : in.opts) cfg.setOption(k, SMTOption(std::atoi(val)), msg);
    ArithLogic l(in.lt); MainSolver s(l, cfg, "s");
    std::vector<PTRef> as; in.build(l, as);
    for (PTRef a : as) s.addAssertion(a);
    sched.action = [&] { if (global) notifyGlobalStop(); else s.notifyStop(); };
    verif::setSched(onPoint);
    auto round = [&](long k) {
        polls = 0; stopAt = k;
        sstat r = s.check();
        if (k >= 0 && polls <= k) { stopAt = -1; sched.handoff(); }     // the stop arrives after the last poll
        o.answers.push_back(ans(r)); o.npolls.push_back(polls);
        return r;
    };
    bool resume = global;
    sstat last = s_Undef;
    for (long k : ks) {
        last = round(k);
        if (!resume) break;
        resetGlobalStop();
    }
    if (resume && !(ks.size() == 1 && ks[0] < 0)) { last = round(-1); o.resumed = true; }
    verif::setSched(nullptr);
    if (last == s_True) {
        try {
            auto m = s.getModel();
            for (PTRef a : as) if (m->evaluate(a) != l.getTerm_true()) { o.modelOk = false; o.modelWhy = "assertion " + l.pp(a) + " evaluates to " + l.pp(m->evaluate(a)); break; }
        } catch (std::exception & e) { o.modelOk = false; o.modelWhy = std::string("getModel threw ") + e.what(); }
    }
    resetGlobalStop();
    return o;
}

static std::string show(std::vector<long> const & ks) { std::string s; for (long k : ks) s += (s.empty() ? "" : ",") + std::to_string(k); return s; }

static void judge(Inst const & in, bool global, std::vector<long> const & ks, Outcome const & o, std::string const & solo) {
    cov["schedules"]++;
    std::string id = in.name + (global ? " global " : " local ") + show(ks);
    for (size_t i = 0; i < o.answers.size(); i++) {
        std::string const & a = o.answers[i];
        bool lastUndisturbed = o.resumed && i + 1 == o.answers.size();
        if (a == "error") fail("stop:error_status", id + ": check #" + std::to_string(i) + " returned s_Error");
        else if (lastUndisturbed) { if (a != solo) fail(a == "unknown" ? "stop:resumed_check_unknown" : "stop:wrong_answer_after_resume", id + ": the undisturbed check after resetGlobalStop answers " + a + ", solo " + solo); }
        else if (a != solo && a != "unknown") fail("stop:wrong_answer", id + ": check #" + std::to_string(i) + " answers " + a + ", solo " + solo);
        cov["answers_" + a]++;
    }
    bool noninc = false;
    for (auto & [k, val] : in.opts) if (k == SMTConfig::o_incremental) noninc = true;
    // a failure after a resume in non-incremental mode is reported as a class of its own (a second check() there re-enters SatELite)
    if (!o.modelOk) fail(std::string("stop:bad_model") + (o.resumed ? (noninc ? "_after_resume_nonincremental" : "_after_resume") : ""), id + ": " + o.modelWhy);
}

int main(int argc, char ** argv) {
    setvbuf(stdout, nullptr, _IOLBF, 0);
    if (argc >= 5 && !std::strcmp(argv[1], "run")) {
        bool thorough = !std::strcmp(argv[2], "thorough"); int shard = std::atoi(argv[3]), nsh = std::atoi(argv[4]);
        sched.start();
        long job = 0;
        for (auto & in : instances(thorough)) for (int global = 0; global < 2; global++) {
            Outcome solo = execute(in, global, {-1});
            if (!solo.modelOk) fail("stop:bad_model_solo", in.name + ": " + solo.modelWhy);
            long N = solo.npolls[0]; std::string sa = solo.answers[0];
            Outcome again = execute(in, global, {-1});
            if (again.answers != solo.answers || again.npolls != solo.npolls) fail("harness:replay_divergence", in.name + ": two undisturbed runs differ");
            if (shard == 0) { printf("SAMPLE\t%s %s: solo %s, %ld polls\n", in.name.c_str(), global ? "global" : "local", sa.c_str(), N); cov["instances"]++; cov["polls_solo"] += N; }
            for (long k1 = 0; k1 <= N; k1++) {
                if (job++ % nsh != shard) continue;
                Outcome o = execute(in, global, {k1});
                judge(in, global, {k1}, o, sa);
                printf("STATE\t%s/%d/%ld\n", in.name.c_str(), global, k1);
                Outcome o2 = execute(in, global, {k1});                      // replay: same schedule, same observations
                if (o2.answers != o.answers || o2.npolls != o.npolls) fail("harness:replay_divergence", in.name + " k=" + std::to_string(k1));
                if (!o.resumed) continue;
                // second stop/resume round from the stopped state: every k2 (thorough), a bounded prefix/suffix of them (quick)
                long N2 = o.npolls.size() > 1 ? o.npolls[1] : 0;
                for (long k2 = 0; k2 <= N2; k2++) {
                    Outcome p = execute(in, global, {k1, k2});
                    judge(in, global, {k1, k2}, p, sa);
                    cov["two_round_schedules"]++;
                    if (!thorough || N > 40) continue;
                    long N3 = p.npolls.size() > 2 ? p.npolls[2] : 0;        // third stop/resume round on the small instances
                    for (long k3 = 0; k3 <= N3; k3++) {
                        Outcome q = execute(in, global, {k1, k2, k3});
                        judge(in, global, {k1, k2, k3}, q, sa);
                        cov["three_round_schedules"]++;
                    }
                }
            }
        }
        sched.stop();
    } else if (argc >= 4 && !std::strcmp(argv[1], "race")) {
        // free-running: a stopper thread writes the flag while the solver polls it, no synchronisation added by the harness
        int reps = std::atoi(argv[2]); int nth = std::atoi(argv[3]);
        for (auto & in : instances(false)) for (int global = 0; global < 2; global++) for (int r = 0; r < reps; r++) {
            resetGlobalStop();
            SMTConfig cfg; char const * msg = "ok";
            for (auto & [k, val] : in.opts) cfg.setOption(k, SMTOption(std::atoi(val)), msg);
            ArithLogic l(in.lt); MainSolver s(l, cfg, "s");
            std::vector<PTRef> as; in.build(l, as); for (PTRef a : as) s.addAssertion(a);
            std::atomic<bool> go{false};
            std::vector<std::thread> ts;
            for (int t = 0; t < nth; t++) ts.emplace_back([&, t] { while (!go.load(std::memory_order_relaxed)) {} for (volatile int d = 0; d < 200 * (r + t); d++) {} if (global) notifyGlobalStop(); else s.notifyStop(); });
            go.store(true, std::memory_order_relaxed);
            sstat res = s.check();
            for (auto & t : ts) t.join();
            cov["race_runs"]++; cov["answers_" + ans(res)]++;
            if (res == s_Error) fail("stop:error_status", in.name + " (free-running)");
        }
        resetGlobalStop();
    } else if (argc >= 5 && !std::strcmp(argv[1], "replay")) {
        sched.start();
        for (auto & in : instances(true)) if (in.name == argv[2]) {
            bool global = !std::strcmp(argv[3], "global"); std::vector<long> ks; for (int i = 4; i < argc; i++) ks.push_back(std::atol(argv[i]));
            Outcome solo = execute(in, global, {-1}); Outcome o = execute(in, global, ks);
            printf("solo %s (%ld polls)\n", solo.answers[0].c_str(), solo.npolls[0]);
            for (size_t i = 0; i < o.answers.size(); i++) printf("check #%zu: %s (%ld polls)\n", i, o.answers[i].c_str(), o.npolls[i]);
            if (!o.modelOk) printf("model: %s\n", o.modelWhy.c_str());
            judge(in, global, ks, o, solo.answers[0]);
        }
        sched.stop();
    } else { fprintf(stderr, "usage: stopmc run <quick|thorough> <shard> <nshards> | race <reps> <nthreads> | replay <instance> <local|global> k1 [k2..]\n"); return 2; }
    for (auto & [k, v] : cov) printf("COV\t%s\t%ld\n", k.c_str(), v);
    for (auto & [k, v] : nfail) printf("FAILCOUNT\t%s\t%ld\n", k.c_str(), v);
    return 0;
}
