#!/bin/bash
# Offline setup: check the tools, build the three library variants from /repo's current tree and the harnesses.
set -euo pipefail
cd "$(dirname "$0")"
for t in cmake ninja g++ clang++ python3-vt flex bison; do command -v $t >/dev/null || { echo "missing tool: $t" >&2; exit 1; }; done
python3-vt -c "import z3, cvc5" || { echo "z3/cvc5 python modules missing" >&2; exit 1; }
bin/verif-build rel >/dev/null
bin/verif-build asan >/dev/null &
bin/verif-build tsan >/dev/null &
wait
for h in harness/*.cc; do
  n=$(basename "$h" .cc)
  variants=$(sed -n 's,^// *VERIF_VARIANTS: *,,p' "$h")
  [ -z "$variants" ] && variants=rel
  for v in $variants; do bin/verif-harness "$v" "$n" >/dev/null; done
done
echo "setup ok"
