"""C05: definitive answers do not depend on the configuration.  For every assertion set of the families up
to the size bound, run EVERY configuration within the deviation bound (option vectors and logic
embeddings) and require that no two of them answer sat and unsat.  Differential oracle; the reference
layer is only used to name the configuration that is wrong."""
import itertools
from . import core, runner, refs, families as F, scriptmc as S

EMBED = {   # family -> wider logic names that also accept its scripts
    'PROP': ['QF_LRA', 'QF_LIA', 'QF_AX', 'ALL'],
    'QF_UF': ['QF_UFLRA', 'QF_UFLIA', 'QF_AX', 'ALL'],
    'QF_LRA': ['QF_UFLRA', 'QF_ALRA', 'QF_AUFLRA', 'QF_AUFLIRA', 'ALL'],
    'QF_LIA': ['QF_UFLIA', 'QF_ALIA', 'QF_AUFLIA', 'QF_AUFLIRA', 'ALL'],
    'QF_IDL': ['QF_LIA', 'QF_UFIDL', 'QF_UFLIA', 'ALL'],
    'QF_RDL': ['QF_LRA', 'QF_UFRDL', 'QF_UFLRA', 'ALL'],
    'QF_UFLRA': ['QF_AUFLRA', 'QF_AUFLIRA', 'ALL'],
    'QF_UFLIA': ['QF_AUFLIA', 'QF_AUFLIRA', 'ALL'],
    'QF_UFIDL': ['QF_UFLIA', 'QF_AUFLIA', 'ALL'],
    'QF_UFRDL': ['QF_UFLRA', 'QF_AUFLRA', 'ALL'],
    'QF_AX': ['ALL'],
    'QF_ALIA': ['QF_AUFLIA', 'QF_AUFLIRA', 'ALL'],
    'QF_ALRA': ['QF_AUFLRA', 'QF_AUFLIRA', 'ALL'],
}
OPTS1 = ['lookahead', 'picky', 'ghost', 'noincr', 'assign', 'proofs', 'cores', 'mincores', 'itp', 'nosubst', 'seed7', 'restart1', 'noluby', 'ccmin0', 'noelim', 'asymm', 'rcheck', 'nomodels']


def variants(famname, d):
    vs = [(None, v) for v in S.opt_vectors(d, OPTS1)]
    vs += [(lg, ()) for lg in EMBED.get(famname, [])]
    if d >= 2:
        vs += [(lg, (o,)) for lg in EMBED.get(famname, []) for o in ('lookahead', 'ghost', 'noincr', 'proofs')]
    return vs


def task(t):
    famname, pool, n, d, start, step = t
    fam = F.FAMILIES[famname]
    atoms = fam.atoms if pool == 'full' else fam.core
    extra = fam.extra if pool == 'full' else ()
    res = core.new_result(); cov = res['cov']
    w = S.worker()
    vs = variants(famname, d)
    for assertions in itertools.islice(F.assertion_sets(atoms, n, extra), start, None, step):
        ans = {}
        for lg, opts in vs:
            script = S.build_script(fam, assertions, opts, models=('nomodels' not in opts), logic=lg)
            r = w.run(script, timeout=2)
            cov['executions'] += 1
            if r.timeout: cov['timeouts'] += 1; continue
            if r.crash: cov['crashes'] += 1; continue
            b = S.blocks(r.out)
            a = b[0] if b else None
            if a in ('sat', 'unsat'): ans[(lg, opts)] = (a, script)
            elif a == 'unknown': cov['unknown'] += 1
            else: cov['other'] += 1
        kinds = set(a for a, _ in ans.values())
        cov['sets'] += 1
        if len(ans) >= 2: res['distinct'].append((famname, tuple(assertions), tuple(sorted(kinds))))
        if kinds == {'sat', 'unsat'}:
            cov['disagreements'] += 1
            m = refs.find_model(fam.logic, fam.decls, assertions, fam.defs)
            truth = 'sat' if m is not None else ('unsat' if refs.is_unsat(fam.logic, fam.decls, assertions, fam.defs) else None)
            good = next(((k, v) for k, v in ans.items() if v[0] == truth), None) if truth else None
            reported = 0
            for (lg, opts), (a, script) in ans.items():
                if truth is not None and a == truth: continue
                if truth is None and reported: break
                other = good if good else next(((k, v) for k, v in ans.items() if v[0] != a))
                if not (S.confirm(script, (), lambda x, a=a: S.blocks(x.out)[:1] == [a], cls=('c05', famname, lg, tuple(opts), a)) and S.confirm(other[1][1], (), lambda x, o=other: S.blocks(x.out)[:1] == [o[1][0]])):
                    cov['unconfirmed_in_fresh_process'] += 1; continue
                rec = dict(S.features(fam, opts, assertions), logic=lg or fam.logic,
                           symptom=('wrong_' + a) if truth else 'sat_vs_unsat_unadjudicated',
                           what='%s under logic=%s options=%s, but %s under logic=%s options=%s%s' % (a, lg or fam.logic, list(opts), other[1][0], other[0][0] or fam.logic, list(other[0][1]),
                                                                                                   ' (reference: %s)' % truth if truth else ''))
                res['violations'].append((rec, script + '\n; versus\n; ' + other[1][1], 'smt2'))
                reported += 1
                if reported >= 3: break
        if len(res['samples']) < 1: res['samples'].append({'assertions': assertions, 'answers': {str(k): v[0] for k, v in list(ans.items())[:6]}})
    return res


def run(prop, tier):
    chk = core.Check('C05', tier, 'exploration',
                     'every assertion set of each family up to the size bound x every configuration within the deviation bound (18 option coordinates + logic embeddings into wider logics); '
                     'distinct = distinct (family, assertion set) answered definitively by at least two configurations')
    chk.assumptions = ['differential oracle between configurations of the same build; z3/cvc5 + exact evaluator only name which side is wrong']
    runner.build('rel'); runner.harness('rel', 'osmt_worker')
    fams = list(F.FAMILIES.keys())
    def tasks(fs, pool, n, d, split): return [(f, pool, n, d, s, split) for f in fs for s in range(split)]
    chk.run_stage('n<=2, all 17 families, deviation 1 (%d option vectors + embeddings)' % len(OPTS1), tasks(fams, 'full', 2, 1, 8), task)
    if tier == 'thorough':
        core_f = F.LOGICS_CORE + ['PROP']
        chk.run_stage('n<=3, core families, 6-atom pools, deviation 1', tasks(core_f, 'core', 3, 1, 32), task)
        chk.run_stage('n<=2, all families, deviation 2', tasks(fams, 'full', 2, 2, 64), task)
    chk.extra['oracle'] = dict(refs.stats)
    return chk.finish()
