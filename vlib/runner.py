"""Drive the real opensmt main() through harness/osmt_worker (in-process, ~50us per script) with crash
isolation, and run fresh processes of the plain executable for confirmation."""
import os, struct, subprocess, select, signal, shutil, time, atexit, tempfile

ROOT = os.path.dirname(os.path.dirname(os.path.abspath(__file__)))
BUILD_ROOT = os.environ.get('VERIF_BUILD_ROOT', os.path.join(ROOT, 'build'))


def build(variant):
    """(re)build the library from the current tree; returns build dir"""
    out = subprocess.run([os.path.join(ROOT, 'bin', 'verif-build'), variant], capture_output=True, text=True)
    if out.returncode != 0:
        raise RuntimeError('build of variant %s failed:\n%s' % (variant, out.stderr[-4000:]))
    return out.stdout.strip().splitlines()[-1]


def harness(variant, name):
    out = subprocess.run([os.path.join(ROOT, 'bin', 'verif-harness'), variant, name], capture_output=True, text=True)
    if out.returncode != 0:
        raise RuntimeError('build of harness %s/%s failed:\n%s' % (variant, name, (out.stdout + out.stderr)[-4000:]))
    return out.stdout.strip().splitlines()[-1]


_scratch = None


def scratch():
    global _scratch
    if _scratch is None or not os.path.isdir(_scratch):
        base = '/dev/shm' if os.path.isdir('/dev/shm') else tempfile.gettempdir()
        _scratch = os.path.join(base, 'osmt-verif-%d' % os.getpid())
        os.makedirs(_scratch, exist_ok=True)
        atexit.register(lambda d=_scratch, pid=os.getpid(): (os.getpid() == pid) and shutil.rmtree(d, ignore_errors=True))
    return _scratch


class Result:
    __slots__ = ('status', 'out', 'err', 'trace', 'wall_us', 'crash', 'timeout', 'polls')

    def __init__(self, status, out, err, trace, wall_us, crash=None, timeout=False):
        self.status = status; self.out = out; self.err = err; self.trace = trace; self.wall_us = wall_us
        self.crash = crash      # None | 'signal N' | 'exit N' (process ended inside the job, e.g. exit(1), abort, sanitizer)
        self.timeout = timeout
        self.polls = 0           # polls of the stop flags counted in the run (only when a stop position was requested)

    def lines(self):
        return self.out.split('\n')

    def __repr__(self):
        return 'Result(status=%r crash=%r timeout=%r out=%r err=%r)' % (self.status, self.crash, self.timeout, self.out[:300], self.err[:300])


SAN_ENV = {'ASAN_OPTIONS': 'detect_leaks=0:abort_on_error=0:exitcode=99:allocator_may_return_null=1',
           'UBSAN_OPTIONS': 'print_stacktrace=1:halt_on_error=1:exitcode=98',
           'TSAN_OPTIONS': 'exitcode=66'}


class Worker:
    """One osmt_worker process; run() executes one job through the real main()."""
    _n = 0

    def __init__(self, variant='rel', binary=None, env=None):
        self.variant = variant
        self.binary = binary or os.path.join(BUILD_ROOT, variant, 'harness', 'osmt_worker')
        Worker._n += 1
        self.prefix = os.path.join(scratch(), 'w%d_%d' % (os.getpid(), Worker._n))
        self.env = dict(os.environ); self.env.update(SAN_ENV)
        if env: self.env.update(env)
        self.p = None
        self.restarts = 0

    def _start(self):
        rr, rw = os.pipe()
        # child: fd 0 = requests, fd <rw> = responses
        self.p = subprocess.Popen([self.binary, self.prefix, str(rw)], stdin=subprocess.PIPE, stdout=subprocess.DEVNULL,
                                  stderr=subprocess.DEVNULL, env=self.env, pass_fds=(rw,), close_fds=True)
        os.close(rw)
        self.rfd = rr

    def close(self):
        if self.p is not None:
            try:
                self.p.stdin.close()
            except Exception:
                pass
            try:
                self.p.wait(timeout=2)
            except Exception:
                self.p.kill(); self.p.wait()
            os.close(self.rfd)
            self.p = None
        for suf in ('.out', '.err', '.trace', '.smt2'):
            try:
                os.unlink(self.prefix + suf)
            except OSError:
                pass

    def _read(self, n, deadline):
        buf = b''
        while len(buf) < n:
            left = deadline - time.monotonic()
            if left <= 0:
                return None
            r, _, _ = select.select([self.rfd], [], [], left)
            if not r:
                return None
            chunk = os.read(self.rfd, n - len(buf))
            if not chunk:
                return b'EOF'
            buf += chunk
        return buf

    def _slurp(self, suf):
        try:
            with open(self.prefix + suf, 'rb') as f:
                return f.read().decode('latin-1')
        except OSError:
            return ''

    MAX_JOBS = 1500   # Enode::cgid_ctr is process-global and never reset: every new Egraph allocates up to it, so an
                      # old worker gets slower and slower (measured 7x after 10^4 scripts); recycle the process

    def run(self, script, args=(), pipe=False, splits=(), trace=False, timeout=10.0, stop=None):
        self.jobs = getattr(self, 'jobs', 0) + 1
        if self.p is not None and self.jobs % self.MAX_JOBS == 0:
            self.close()
        if self.p is None:
            self._start()
        sb = script.encode('latin-1') if isinstance(script, str) else script
        req = struct.pack('<BBI', 1 if pipe else 0, 1 if trace else 0, len(args))
        for a in args:
            ab = a.encode(); req += struct.pack('<I', len(ab)) + ab
        req += struct.pack('<I', len(sb)) + sb
        req += struct.pack('<I', len(splits)) + b''.join(struct.pack('<I', s) for s in splits)
        if stop is not None: req += struct.pack('<ii', stop[0], stop[1])      # (stop before poll k, withdraw it m polls later; m = 0: never)
        try:
            self.p.stdin.write(struct.pack('<I', len(req)) + req); self.p.stdin.flush()
        except BrokenPipeError:
            pass
        deadline = time.monotonic() + timeout
        hdr = self._read(4, deadline)
        if hdr is not None and hdr != b'EOF':
            n = struct.unpack('<I', hdr)[0]
            body = self._read(n, deadline + 5)
            if body is not None and body != b'EOF':
                status, wall = struct.unpack_from('<iI', body, 0)
                off = 8
                fields = []
                for _ in range(3):
                    ln = struct.unpack_from('<I', body, off)[0]; off += 4
                    fields.append(body[off:off + ln].decode('latin-1')); off += ln
                res_ = Result(status, fields[0], fields[1], fields[2], wall)
                if off + 4 <= len(body): res_.polls = struct.unpack_from('<I', body, off)[0]
                return res_
            hdr = body
        # crash or timeout
        timed_out = hdr is None
        if timed_out:
            self.p.kill()
        rc = self.p.wait()
        out, err, tr = self._slurp('.out'), self._slurp('.err'), self._slurp('.trace')
        os.close(self.rfd)
        self.p = None
        self.restarts += 1
        if timed_out:
            return Result(None, out, err, tr, int(timeout * 1e6), crash=None, timeout=True)
        crash = ('signal %d' % -rc) if rc < 0 else ('exit %d' % rc)
        return Result(rc if rc >= 0 else None, out, err, tr, 0, crash=crash)


def fresh_run(script, args=(), variant='rel', timeout=20.0, env=None, pipe=False, trace=False, binary=None):
    """Run the plain executable build/<variant>/opensmt in a fresh process (file mode unless pipe)."""
    exe = binary or os.path.join(BUILD_ROOT, variant, 'opensmt')
    d = scratch()
    fn = os.path.join(d, 'fresh_%d_%d.smt2' % (os.getpid(), int(time.monotonic() * 1e6) % 10 ** 9))
    e = dict(os.environ); e.update(SAN_ENV)
    trf = None
    if trace:
        trf = fn + '.trace'; e['OSMT_VERIF_TRACE'] = trf
    if env: e.update(env)
    sb = script.encode('latin-1') if isinstance(script, str) else script
    try:
        if pipe:
            cmd = [exe] + list(args) + ['-p']
            inp = sb
        else:
            with open(fn, 'wb') as f: f.write(sb)
            cmd = [exe] + list(args) + [fn]
            inp = None
        try:
            p = subprocess.run(cmd, input=inp, capture_output=True, timeout=timeout, env=e)
        except subprocess.TimeoutExpired as ex:
            return Result(None, (ex.stdout or b'').decode('latin-1'), (ex.stderr or b'').decode('latin-1'), '', int(timeout * 1e6), timeout=True)
        tr = ''
        if trf and os.path.exists(trf):
            with open(trf, 'rb') as f: tr = f.read().decode('latin-1')
        crash = ('signal %d' % -p.returncode) if p.returncode < 0 else None
        return Result(p.returncode if p.returncode >= 0 else None, p.stdout.decode('latin-1'), p.stderr.decode('latin-1'), tr, 0, crash=crash)
    finally:
        for f in (fn, trf):
            if f:
                try: os.unlink(f)
                except OSError: pass
