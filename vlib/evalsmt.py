"""Exact evaluator for ground SMT-LIB terms (Core, Ints, Reals, UF, ArraysEx) under a model.
The only component trusted to certify that a model satisfies a formula."""
from fractions import Fraction
import re, operator

NUM = re.compile(r'\d+$'); DEC = re.compile(r'\d+\.\d+$')


class EvalError(Exception):
    pass


class Abs:
    """abstract value of an uninterpreted sort"""
    __slots__ = ('n', 'sort')

    def __init__(s, n, sort): s.n = n; s.sort = sort
    def __eq__(s, o): return isinstance(o, Abs) and s.n == o.n and s.sort == o.sort
    def __ne__(s, o): return not s.__eq__(o)
    def __hash__(s): return hash((s.n, s.sort))
    def __repr__(s): return '(as %s %s)' % (s.n, s.sort)


class Arr:
    """array value over an infinite index domain: finite map + default"""
    __slots__ = ('default', 'm')

    def __init__(s, default, m=None):
        s.default = default
        s.m = {k: v for k, v in (m or {}).items() if not veq(v, default)}
    def select(s, i): return s.m.get(key(i), s.default)
    def store(s, i, v):
        m = dict(s.m); m[key(i)] = v
        return Arr(s.default, m)
    def __eq__(s, o):
        return isinstance(o, Arr) and veq(s.default, o.default) and s.m.keys() == o.m.keys() and all(veq(v, o.m[k]) for k, v in s.m.items())
    def __ne__(s, o): return not s.__eq__(o)
    def __hash__(s): return hash((key(s.default), tuple(sorted((repr(k), repr(key(v))) for k, v in s.m.items()))))
    def __repr__(s): return 'Arr(%r,%r)' % (s.default, s.m)


def key(v):
    """canonical hashable key for a value (numbers by value)"""
    if isinstance(v, bool): return v
    if isinstance(v, (int, Fraction)): return Fraction(v)
    return v


def veq(a, b):
    if isinstance(a, bool) or isinstance(b, bool):
        return isinstance(a, bool) and isinstance(b, bool) and a == b
    if isinstance(a, (int, Fraction)) and isinstance(b, (int, Fraction)):
        return Fraction(a) == Fraction(b)
    return a == b


def ediv(a, b):
    if b == 0: raise EvalError('division by zero')
    return a // b if b > 0 else -(a // -b)


def as_int(v):
    if isinstance(v, bool): raise EvalError('bool where int expected')
    if isinstance(v, int): return v
    if isinstance(v, Fraction) and v.denominator == 1: return int(v)
    raise EvalError('non-integer %r where integer expected' % (v,))


def isnum(v):
    return isinstance(v, (int, Fraction)) and not isinstance(v, bool)


_CMP = {'<': operator.lt, '<=': operator.le, '>': operator.gt, '>=': operator.ge}


def ev(t, env, funs):
    """t: parsed term; env: dict of let/param bindings -> value; funs: dict symbol -> callable(list of values)"""
    if isinstance(t, str):
        if t in env: return env[t]
        if t == 'true': return True
        if t == 'false': return False
        if NUM.match(t): return int(t)
        if DEC.match(t): return Fraction(t)
        if t in funs: return funs[t]([])
        raise EvalError('unbound symbol %s' % t)
    if not t:
        raise EvalError('empty application')
    h = t[0]
    if isinstance(h, list):
        # ((as f S) args) or ((_ ...) args) not supported
        raise EvalError('unsupported head %r' % (h,))
    if h == 'as':
        if len(t) == 3 and isinstance(t[1], str) and t[1].startswith('@'):
            return Abs(t[1], t[2] if isinstance(t[2], str) else repr(t[2]))
        return ev(t[1], env, funs)
    if h == 'let':
        e2 = dict(env)
        for b in t[1]:
            e2[b[0]] = ev(b[1], env, funs)
        return ev(t[2], e2, funs)
    if h == '!':
        return ev(t[1], env, funs)
    if h == 'ite':
        c = ev(t[1], env, funs)
        if not isinstance(c, bool): raise EvalError('ite condition not Bool')
        return ev(t[2], env, funs) if c else ev(t[3], env, funs)
    if h == 'and':
        r = True
        for a in t[1:]:
            v = ev(a, env, funs)
            if not isinstance(v, bool): raise EvalError('and over non-Bool')
            r = r and v
        return r
    if h == 'or':
        r = False
        for a in t[1:]:
            v = ev(a, env, funs)
            if not isinstance(v, bool): raise EvalError('or over non-Bool')
            r = r or v
        return r
    if h in funs and h not in env:
        return funs[h]([ev(x, env, funs) for x in t[1:]])
    a = [ev(x, env, funs) for x in t[1:]]
    if h == 'not':
        if len(a) != 1 or not isinstance(a[0], bool): raise EvalError('bad not')
        return not a[0]
    if h == '=>':
        r = a[-1]
        for x in reversed(a[:-1]): r = (not x) or r
        return r
    if h == 'xor':
        r = a[0]
        for x in a[1:]: r = (r != x)
        return r
    if h == '=':
        return all(veq(a[i], a[i + 1]) for i in range(len(a) - 1))
    if h == 'distinct':
        return all(not veq(a[i], a[j]) for i in range(len(a)) for j in range(i + 1, len(a)))
    if h in ('+', '-', '*', '/', 'div', 'mod', 'abs') or h in _CMP:
        for x in a:
            if not isnum(x): raise EvalError('non-numeric argument to %s' % h)
    if h == '+': return sum(a)
    if h == '-': return -a[0] if len(a) == 1 else a[0] - sum(a[1:])
    if h == '*':
        r = 1
        for x in a: r *= x
        return r
    if h == '/':
        r = Fraction(a[0])
        for x in a[1:]:
            if x == 0: raise EvalError('division by zero')
            r = r / Fraction(x)
        return r
    if h == 'div':
        r = as_int(a[0])
        for x in a[1:]: r = ediv(r, as_int(x))
        return r
    if h == 'mod':
        x, y = as_int(a[0]), as_int(a[1])
        return x - y * ediv(x, y)
    if h == 'abs': return abs(a[0])
    if h in _CMP:
        op = _CMP[h]
        return all(op(a[i], a[i + 1]) for i in range(len(a) - 1))
    if h == 'select':
        if not isinstance(a[0], Arr): raise EvalError('select on non-array')
        return a[0].select(a[1])
    if h == 'store':
        if not isinstance(a[0], Arr): raise EvalError('store on non-array')
        return a[0].store(a[1], a[2])
    if h == 'to_real': return a[0]
    if h == '.uf-not': return not a[0]
    raise EvalError('unknown operator %s' % (h,))


def make_fun(params, body, funs):
    names = [p[0] for p in params]
    def f(args):
        if len(args) != len(names): raise EvalError('arity mismatch')
        return ev(body, dict(zip(names, args)), funs)
    return f


def load_model(sexpr, funs=None):
    """sexpr: parsed get-model answer: list of ['define-fun', name, params, sort, body].
    Returns (funs, sig) with sig[name] = (param sorts, result sort)."""
    funs = {} if funs is None else funs
    sig = {}
    for d in sexpr:
        if not (isinstance(d, list) and len(d) == 5 and d[0] == 'define-fun'):
            raise EvalError('not a define-fun: %r' % (d,))
        _, name, params, sort, body = d
        if name in sig: raise EvalError('symbol %s defined twice in model' % name)
        funs[name] = make_fun(params, body, funs)
        sig[name] = ([p[1] for p in params], sort)
    return funs, sig


def sort_ok(v, sort):
    """does value v inhabit sort (given as parsed sort)?"""
    if sort == 'Bool': return isinstance(v, bool)
    if sort == 'Int': return isinstance(v, int) and not isinstance(v, bool) or (isinstance(v, Fraction) and v.denominator == 1)
    if sort == 'Real': return isnum(v)
    if isinstance(sort, list) and sort and sort[0] == 'Array': return isinstance(v, Arr)
    if isinstance(sort, str): return isinstance(v, Abs) and v.sort == sort
    return True
