"""C08 (interpolants are Craig interpolants for the requested split) and C09 (sequence interpolants satisfy the path
property).  Every unsat ordered subset of the QF_UF/QF_LRA/QF_LIA micro-pools with all assertions named, every
A/B partition (C08) resp. every ordered partition into k>=3 groups (C09), every interpolation-algorithm setting
within deviation 1, single-frame and push/pop histories."""
import itertools
from . import core, runner, refs, smtlib, families as F, scriptmc as S, histories as H

ITP_FAMS = ['QF_UF', 'QF_LRA', 'QF_LIA', 'PROP']   # the logics the property names (interpolation in QF_UFLRA is "Not implemented")
ALG = [()] + [(('interpolation-bool-algorithm', v),) for v in (1, 2, 3, 4, 5)] + [(('interpolation-euf-algorithm', v),) for v in (2, 3)] + \
      [(('interpolation-lra-algorithm', v),) for v in (2, 3, 4, 5)] + [(('interpolation-lra-algorithm', 3), ('interpolation-lra-factor', f)) for f in ('"1/3"', '"0"', '"9/10"')] + \
      [(('proof-reduce', 1),)] + [(('simplify-interpolants', v),) for v in (1, 2, 3, 4)]
EXTRA_POOL = {   # assertions that make interpolation work harder than the history pools (shared symbols, mixed Boolean structure)
    'QF_UF': ['(= a b)', '(= b c)', '(not (= (f a) (f c)))', '(or (P a) (not (P c)))', '(= (g a b) (g c c))'],
    'QF_LRA': ['(<= x y)', '(<= y z)', '(< z x)', '(or p (< (+ x y) 0))', '(and (not p) (> x 0) (> y 0))'],
    'QF_LIA': ['(< (* 2 x) (+ (* 2 y) 1))', '(> (* 2 x) (- (* 2 y) 1))', '(not (= x y))', '(or p (= x (+ y 1)))', '(not p)'],
    'PROP': ['(or p q)', '(or (not p) r)', '(not r)', '(or (not q) r)', '(= s p)'],
    'QF_UFLRA': ['(<= x y)', '(<= y x)', '(not (= (f x) (f y)))', '(or (> (f x) 0) p)', '(< (f y) 0)'],
}
REDUND_POOL = {   # redundant clauses over two atoms: shared atoms occur unequally often in A- and B-leaves of the proof, which is what the
                  # proof-sensitive labelling functions (Boolean algorithms 3-5) key on
    'PROP': ['(and (or r q) q)', '(or (not q) r)', '(and (or (not q) r) (not r))', '(or q (not r))', '(not (and q r))'],
    'QF_LRA': ['(and (or (<= y 0) (<= x 0)) (<= x 0))', '(or (not (<= x 0)) (<= y 0))', '(and (or (not (<= x 0)) (<= y 0)) (not (<= y 0)))', '(or (<= x 0) (not (<= y 0)))', '(not (and (<= x 0) (<= y 0)))'],
}


def alg_text(alg):
    return ''.join('(set-option :%s %s)' % kv for kv in alg)


def user_symbols(fam):
    return set(d[1] for d in smtlib.parse_all(fam.decls) if d[0] in ('declare-fun', 'declare-const'))


def syms_of(text, usyms):
    return smtlib.symbols(smtlib.parse_one(text)) & usyms


def check_itp(prop, fam, usyms, Aform, Bform, itp_text, viol):
    """Craig conditions for one interpolant (text) w.r.t. A (list of formulas) and B"""
    try:
        sx = smtlib.parse_one(itp_text)
    except smtlib.ParseError:
        viol('bad_interpolant:unparsable', itp_text[:100]); return False
    I = smtlib.show(sx)
    if refs.find_model(fam.logic, fam.decls, Aform + ['(not %s)' % I]) is not None:
        viol('bad_interpolant:not_implied_by_A', 'A=%s does not imply I=%s' % (Aform, I)); return False
    if refs.find_model(fam.logic, fam.decls, Bform + [I]) is not None:
        viol('bad_interpolant:consistent_with_B', 'I=%s together with B=%s has a certified model' % (I, Bform)); return False
    sa = set().union(*[syms_of(a, usyms) for a in Aform]) if Aform else set()
    sb = set().union(*[syms_of(b, usyms) for b in Bform]) if Bform else set()
    extra = (smtlib.symbols(sx) & usyms) - (sa & sb)
    if extra:
        viol('bad_interpolant:non_shared_symbol', 'I=%s mentions %s, not shared by A=%s and B=%s' % (I, sorted(extra), Aform, Bform)); return False
    return True


def split_itps(piece):
    """'(i1\n i2)' -> [i1, i2] texts"""
    sx = smtlib.parse_one(piece)
    return [smtlib.show(x) for x in sx]


def ordered_partitions(names, k):
    """all ways to split the ordered list of names into k non-empty groups, groups as sets in any assignment (ordered set partitions)"""
    n = len(names)
    for assign in itertools.product(range(k), repeat=n):
        if set(assign) != set(range(k)): continue
        yield [[names[i] for i in range(n) if assign[i] == g] for g in range(k)]


def grp(g):
    return g[0] if len(g) == 1 else '(and %s)' % ' '.join(g)


def task(t):
    prop, famname, poolname, m, algs, start, step = t
    fam = F.FAMILIES[famname]
    pool = (H.POOLS if poolname == 'hist' else REDUND_POOL if poolname == 'redund' else EXTRA_POOL)[famname]
    usyms = user_symbols(fam)
    res = core.new_result(); cov = res['cov']
    w = S.worker()
    subsets = []
    for r in range(2, m + 1):
        for idxs in itertools.combinations(range(len(pool)), r):
            if refs.is_unsat(fam.logic, fam.decls, [pool[i] for i in idxs]):
                subsets.append(idxs)
                if r == 2: subsets.append(idxs[::-1])
    for idxs in subsets[start::step]:
        names = ['n%d' % j for j in range(len(idxs))]
        forms = {('n%d' % j): pool[i] for j, i in enumerate(idxs)}
        if prop == 'C08':
            reqs = []
            for r in range(1, len(names)):
                for A in itertools.combinations(names, r):
                    Bn = [n for n in names if n not in A]
                    reqs.append(([list(A), Bn], '(get-interpolants %s %s)' % (grp(list(A)), grp(Bn))))
                    if len(A) > 1: reqs.append(([list(A), Bn], '(get-interpolants (and %s) %s)' % (' '.join(reversed(A)), grp(Bn))))
        else:
            reqs = []
            for k in range(3, len(names) + 1):
                for groups in ordered_partitions(names, k):
                    reqs.append((groups, '(get-interpolants %s)' % ' '.join(grp(g) for g in groups)))
        for alg in algs:
            head = '(set-option :produce-interpolants true)%s(set-logic %s)%s%s(check-sat)' % (alg_text(alg), fam.logic, fam.decls, ''.join('(assert (! %s :named %s))' % (forms[n], n) for n in names))
            # all requests of this subset in one run (the proof is the same), separated by markers
            script = head + ''.join('(echo "@@")' + q for _, q in reqs)
            r = w.run(script, timeout=10)
            cov['executions'] += 1
            if r.timeout: cov['timeouts'] += 1; continue
            pieces = r.out.split('@@\n')
            if r.crash:
                # find the request that kills it
                done = len(pieces) - 1
                culprit = reqs[min(done, len(reqs) - 1)][1] if reqs else ''
                s1 = head + culprit
                if S.confirm(s1, (), lambda x: bool(x.crash)):
                    rec = {'logic': fam.logic, 'family': famname, 'options': [alg_text(alg)], 'symptom': 'rejected_request:crash', 'input_class': prop, 'site': (r.err.strip().split('\n')[0][:120] if r.err else r.crash),
                           'what': 'the request %s ends the solver: %s %s' % (culprit, r.crash, r.err[:150])}
                    res['violations'].append((rec, s1, 'smt2'))
                continue
            if S.blocks(pieces[0])[:1] != ['unsat']:
                cov['not_unsat'] += 1; continue
            for (groups, q), piece in zip(reqs, pieces[1:]):
                piece = piece.strip()
                cov['requests'] += 1
                def viol(sym, what, q=q, groups=groups):
                    tags = []
                    if any('(distinct a b c)' in f or '(distinct (f x) (f y) z)' in f for f in forms.values()): tags.append('distinct_nary')
                    if sym == 'rejected_request' and any(len(g) > 1 and refs.is_unsat(fam.logic, fam.decls, [forms[n] for n in g]) for g in groups): tags.append('group_unsat_alone')
                    rec = {'logic': fam.logic, 'family': famname, 'options': [alg_text(alg)], 'symptom': sym, 'input_class': ','.join(tags) or 'plain', 'what': ('%s -> %s' % (q, what))[:400],
                           'site': 'lra_algorithm_3_factor' if ('interpolation-lra-algorithm', 3) in alg else 'other_setting'}
                    res['violations'].append((rec, head + q, 'smt2'))
                if S.is_error(piece) or not piece:
                    viol('rejected_request', 'request over names of current assertions answered with %s' % (piece[:100] or '(nothing)')); continue
                try:
                    itps = split_itps(piece)
                except smtlib.ParseError:
                    viol('bad_interpolant:unparsable', piece[:100]); continue
                if len(itps) != len(groups) - 1:
                    viol('bad_interpolant:wrong_number', '%d interpolants for %d groups' % (len(itps), len(groups))); continue
                ok = True
                for j, I in enumerate(itps):
                    A = [forms[n] for g in groups[:j + 1] for n in g]
                    B = [forms[n] for g in groups[j + 1:] for n in g]
                    res['distinct'].append((famname, tuple(sorted(A)), tuple(sorted(B)), alg))
                    cov['interpolants_checked'] += 1
                    ok = check_itp(prop, fam, usyms, A, B, I, viol) and ok
                if prop == 'C09' and ok:
                    for j in range(len(itps) - 1):
                        G = [forms[n] for n in groups[j + 1]]
                        cov['path_steps_checked'] += 1
                        if refs.find_model(fam.logic, fam.decls, [itps[j]] + G + ['(not %s)' % itps[j + 1]]) is not None:
                            viol('bad_interpolant:path_property', 'I_%d and group %d do not imply I_%d: %s / %s / %s' % (j + 1, j + 2, j + 2, itps[j], G, itps[j + 1]))
        if len(res['samples']) < 1 and 'script' in dir(): res['samples'].append({'script': script[:600], 'stdout': r.out[:300]})
    return res


def hist_task(t):
    """interpolation in incremental use: histories; after every unsat check every A/B split of the current named assertions"""
    prop, famname, L, start, step = t
    fam = F.FAMILIES[famname]; pool = H.POOLS[famname][:3]
    usyms = user_symbols(fam)
    res = core.new_result(); cov = res['cov']
    w = S.worker()
    for hist in H.enumerate_histories(3, L, with_query=False)[start::step]:
        # build script: after each check a marker; interpolant requests are issued in a second run once we know which checks are unsat
        frames = [[]]; cnt = 0; s = ['(set-option :produce-interpolants true)(set-logic %s)%s' % (fam.logic, fam.decls)]
        stack_at = {}
        for pos, c in enumerate(hist):
            if c == 'push': s.append('(push 1)'); frames.append([])
            elif c == 'pop': s.append('(pop 1)'); frames.pop()
            elif c == 'check':
                cur = [x for fr in frames for x in fr]
                s.append('(check-sat)(echo "@@")')
                if len(cur) >= 2:
                    names = [n for n, _ in cur]
                    reqs = []
                    for r_ in range(1, len(names)):
                        for A in itertools.combinations(names, r_):
                            reqs.append((list(A), [n for n in names if n not in A]))
                    reqs = reqs[:6]
                    stack_at[pos] = (dict(cur), reqs)
                    for A, B in reqs: s.append('(get-interpolants %s %s)(echo "@@")' % (grp(A), grp(B)))
            else:
                i = int(c[1:]); nm = 'h%d_%d' % (i, cnt); cnt += 1
                s.append('(assert (! %s :named %s))' % (pool[i], nm)); frames[-1].append((nm, pool[i]))
        script = ''.join(s)
        r = w.run(script, timeout=10)
        cov['executions'] += 1; cov['transitions'] += len(hist)
        if r.timeout or r.crash: cov['timeouts_or_crashes'] += 1; continue
        pieces = r.out.split('@@\n'); pi = 0
        for pos, c in enumerate(hist):
            if c != 'check': continue
            ans = pieces[pi].strip() if pi < len(pieces) else ''; pi += 1
            if pos not in stack_at: continue
            forms, reqs = stack_at[pos]
            for A, B in reqs:
                piece = pieces[pi].strip() if pi < len(pieces) else ''; pi += 1
                if ans != 'unsat': continue
                cov['requests'] += 1
                def viol(sym, what, A=A, B=B):
                    asserted = [c_ for c_ in hist[:pos + 1] if c_.startswith('a')]
                    cur_forms = set(forms.values())
                    # a formula that is CURRENTLY asserted was asserted more than once in this history (known partition-index defect)
                    rec = {'logic': fam.logic, 'family': famname, 'options': [], 'symptom': sym, 'dup_assert': any(asserted.count(c_) > 1 and pool[int(c_[1:])] in cur_forms for c_ in set(asserted)),
                           'input_class': 'distinct_nary' if (any('(distinct a b c)' in f for f in forms.values()) and len(set(forms.values())) == len(forms)) else
                                          'group_unsat_alone' if (sym == 'rejected_request' and any(len(g) > 1 and refs.is_unsat(fam.logic, fam.decls, [forms[n] for n in g]) for g in (A, B))) else 'history',
                           'what': ('history %s, split %s | %s -> %s' % (','.join(hist[:pos + 1]), A, B, what))[:400]}
                    res['violations'].append((rec, script, 'smt2'))
                if S.is_error(piece) or not piece:
                    viol('rejected_request', 'answered with %s' % (piece[:100] or '(nothing)')); continue
                try:
                    itps = split_itps(piece)
                except smtlib.ParseError:
                    viol('bad_interpolant:unparsable', piece[:100]); continue
                if len(itps) != 1: viol('bad_interpolant:wrong_number', piece[:100]); continue
                cov['interpolants_checked'] += 1
                res['distinct'].append((famname, tuple(sorted(forms[n] for n in A)), tuple(sorted(forms[n] for n in B)), 'hist'))
                check_itp(prop, fam, usyms, [forms[n] for n in A], [forms[n] for n in B], itps[0], viol)
        if len(res['samples']) < 1: res['samples'].append({'history': list(hist), 'stdout': r.out[:200]})
    return res


PLACE_POOL = {
    'PROP': ['(or p r)', '(and p (or (not p) q))', '(not q)', '(not r)', '(or q s)'],
    'QF_LRA': ['(or p (<= x 0))', '(and (> x 1) (or (<= x 1) (> y 0)))', '(<= y 0)', '(not p)', '(or (> y 0) (> z 0))'],
    'QF_UF': ['(or p (= a b))', '(and (= a c) (or (not (= a c)) (P b)))', '(not (P b))', '(not p)', '(or (P b) (P c))'],
    'QF_LIA': ['(or p (<= x 0))', '(and (> x 1) (or (<= x 1) (> y 0)))', '(<= y 0)', '(not p)', '(or (> y 0) (> z 0))'],
}


def place_task(t):
    """a frame [push, assert s, (check-sat), assert t, pop] with s,t from the pool or absent, followed by every unsat subset
    (size<=3) of the pool asserted with names, check-sat, and every A/B split"""
    prop, famname, start, step = t
    fam = F.FAMILIES[famname]; pool = PLACE_POOL[famname]
    usyms = user_symbols(fam)
    res = core.new_result(); cov = res['cov']
    w = S.worker()
    subsets = [idxs for r in (2, 3) for idxs in itertools.combinations(range(len(pool)), r) if refs.is_unsat(fam.logic, fam.decls, [pool[i] for i in idxs])]
    jobs = [(s, tt, chk_in, idxs) for s in [None] + list(range(len(pool))) for tt in [None] + list(range(len(pool))) for chk_in in (False, True) for idxs in subsets if not (s is None and tt is None and chk_in)]
    for s, tt, chk_in, idxs in jobs[start::step]:
        names = ['n%d' % j for j in range(len(idxs))]; forms = {('n%d' % j): pool[i] for j, i in enumerate(idxs)}
        reqs = []
        for r in range(1, len(names)):
            for A in itertools.combinations(names, r):
                reqs.append((list(A), [n for n in names if n not in A]))
        pre = ''
        if s is not None or tt is not None:
            pre = '(push 1)' + ('(assert %s)' % pool[s] if s is not None else '') + ('(check-sat)' if chk_in else '') + ('(assert %s)' % pool[tt] if tt is not None else '') + '(pop 1)'
        head = '(set-option :produce-interpolants true)(set-logic %s)%s%s(echo "@@")%s(check-sat)' % (fam.logic, fam.decls, pre, ''.join('(assert (! %s :named %s))' % (forms[n], n) for n in names))
        script = head + ''.join('(echo "@@")(get-interpolants %s %s)' % (grp(A), grp(B)) for A, B in reqs)
        r = w.run(script, timeout=10)
        cov['executions'] += 1
        if r.timeout or r.crash: cov['timeouts_or_crashes'] += 1; continue
        pieces = r.out.split('@@\n')
        if len(pieces) < 2 or S.blocks(pieces[1])[:1] != ['unsat']: cov['not_unsat'] += 1; continue
        popped = [pool[i] for i in (s, tt) if i is not None]
        for (A, B), piece in zip(reqs, pieces[2:]):
            piece = piece.strip(); cov['requests'] += 1
            def viol(sym, what, A=A, B=B):
                rec = {'logic': fam.logic, 'family': famname, 'options': [], 'symptom': sym, 'site': 'other_setting',
                       'input_class': 'placement_reassert' if (any(f in popped for f in forms.values()) or len(set(popped)) < len(popped)) else 'placement',
                       'what': ('popped frame %s%s, then %s, split %s | %s -> %s' % (popped, ' (checked inside)' if chk_in else '', forms, A, B, what))[:400]}
                res['violations'].append((rec, script, 'smt2'))
            if S.is_error(piece) or not piece:
                if any(len(g) > 1 and refs.is_unsat(fam.logic, fam.decls, [forms[n] for n in g]) for g in (A, B)): cov['rejected_group_unsat_alone'] += 1; continue
                viol('rejected_request', 'answered with %s' % (piece[:100] or '(nothing)')); continue
            try: itps = split_itps(piece)
            except smtlib.ParseError: viol('bad_interpolant:unparsable', piece[:100]); continue
            if len(itps) != 1: viol('bad_interpolant:wrong_number', piece[:100]); continue
            cov['interpolants_checked'] += 1
            res['distinct'].append((famname, tuple(popped), chk_in, tuple(sorted(forms[n] for n in A)), tuple(sorted(forms[n] for n in B))))
            check_itp(prop, fam, usyms, [forms[n] for n in A], [forms[n] for n in B], itps[0], viol)
        if len(res['samples']) < 1: res['samples'].append({'script': script[:500], 'stdout': r.out[:200]})
    return res


def run(prop, tier):
    chk = core.Check(prop, tier, 'exploration',
                     ('every unsat subset (size<=4, both orders for pairs) of two 5-assertion pools per logic (QF_UF, QF_LRA, QF_LIA, propositional, QF_UFLRA), all assertions named; '
                      + ('every A/B partition, requested as names and as (and ...) in both argument orders; ' if prop == 'C08' else 'every ordered partition into k>=3 groups; ')
                      + 'every interpolation setting within deviation 1 (%d settings: Boolean/EUF/LRA algorithm, LRA factor, proof reduction, simplification level)' % len(ALG)
                      + ('; push/pop histories up to length 6 with every split after every unsat check' if prop == 'C08' else '')
                      + '; oracle: A implies I, I and B unsatisfiable (certified models), symbols of I shared' + (', I_j and G_{j+1} imply I_{j+1}' if prop == 'C09' else '')
                      + '; distinct = distinct (family, A, B, setting)'))
    chk.assumptions = ['reference layer as in C01/C02 (a violation needs a certified model)']
    runner.build('rel'); runner.harness('rel', 'osmt_worker')
    algs = ALG
    m = 4
    tasks = [(prop, f, pn, m, algs, s, 4) for f in ITP_FAMS for pn in ('hist', 'extra') for s in range(4)]
    tasks += [(prop, f, 'redund', 5, algs, s, 4) for f in REDUND_POOL for s in range(4)]
    chk.run_stage('single frame, subsets<=%d (<=5 for the redundant-clause pools), %d settings' % (m, len(algs)), tasks, task)
    if prop == 'C08':
        chk.run_stage('histories L<=6 (3 assertions), default setting', [(prop, f, 6, s, 8) for f in ('QF_UF', 'QF_LRA', 'QF_LIA', 'PROP') for s in range(8)], hist_task)
        chk.run_stage('placements: popped frame [assert s, (check), assert t] x every unsat subset (<=3) x every split', [(prop, f, s, 4) for f in PLACE_POOL for s in range(4)], place_task)
    if tier == 'thorough':
        tasks = [(prop, f, pn, 5, algs, s, 16) for f in ITP_FAMS for pn in ('hist', 'extra') for s in range(16)]
        chk.run_stage('single frame, subsets<=5', tasks, task)
        if prop == 'C08':
            chk.run_stage('histories L<=7 (3 assertions)', [(prop, f, 7, s, 32) for f in ('QF_UF', 'QF_LRA', 'QF_LIA', 'PROP') for s in range(32)], hist_task)
    chk.extra['oracle'] = dict(refs.stats)
    return chk.finish()
