"""Script-level exploration: build scripts from families, run them through the real main(), parse the
answers, and judge them (monitors for C01, C02, C03, ...)."""
import os, itertools, collections
from . import runner, smtlib, evalsmt, refs, families as F
from .core import new_result

_worker = {}


def worker(variant='rel'):
    w = _worker.get((variant, os.getpid()))
    if w is None:
        w = runner.Worker(variant)
        _worker[(variant, os.getpid())] = w
    return w


# ---- option vectors (deviation from the default) -------------------------------------------------------
OPT = {
    'lookahead': '(set-option :pure-lookahead true)',
    'picky': '(set-option :picky true)',
    'ghost': '(set-option :ghost-vars true)',
    'noincr': '(set-option :incremental false)',
    'assign': '(set-option :produce-assignments true)',
    'proofs': '(set-option :produce-proofs true)',
    'cores': '(set-option :produce-unsat-cores true)',
    'mincores': '(set-option :produce-unsat-cores true)(set-option :minimal-unsat-cores true)',
    'fullcores': '(set-option :produce-unsat-cores true)(set-option :print-cores-full true)',
    'itp': '(set-option :produce-interpolants true)',
    'nosubst': '(set-option :do-substitutions false)',
    'seed7': '(set-option :random-seed 7)',
    'restart1': '(set-option :restart-first 1)',
    'noluby': '(set-option :luby-restart false)',
    'ccmin0': '(set-option :ccmin-mode 0)',
    'noelim': '(set-option :incremental false)(set-option :elim false)',
    'asymm': '(set-option :incremental false)(set-option :asymm true)',
    'rcheck': '(set-option :incremental false)(set-option :rcheck true)',
    'nomodels': '',
}
ENGINES = ['lookahead', 'picky', 'ghost']


def opt_vectors(d, names=None):
    """all option vectors differing from the default in <= d coordinates"""
    names = names or [n for n in OPT if n != 'nomodels']
    out = [()]
    for k in range(1, d + 1):
        for c in itertools.combinations(names, k):
            if sum(1 for x in c if x in ENGINES) > 1: continue
            out.append(c)
    return out


def opt_text(vec):
    return ''.join(OPT[o] for o in vec)


def build_script(fam, assertions, opts=(), models=True, tail='', logic=None):
    s = []
    if models and fam.models: s.append('(set-option :produce-models true)')
    s.append(opt_text(opts))
    s.append('(set-logic %s)' % (logic or fam.logic))
    s.append(fam.decls); s.append(fam.defs)
    for a in assertions: s.append('(assert %s)' % a)
    s.append('(check-sat)')
    s.append(tail)
    return ''.join(s)


def blocks(out):
    """top-level output chunks without comment lines"""
    return [b for b in smtlib.top_level_blocks(out) if not b.startswith(';')]


def is_error(b):
    return b.startswith('(error')


class Model:
    """parsed get-model answer"""

    def __init__(self, text):
        self.sx = smtlib.parse_one(text)
        self.funs, self.sig = evalsmt.load_model(self.sx)


def decl_sig(decls):
    """declared symbols: name -> (argsorts, sort) from declare-fun/declare-const text"""
    sig = {}
    for d in smtlib.parse_all(decls):
        if d[0] == 'declare-fun': sig[d[1]] = (d[2], d[3])
        elif d[0] == 'declare-const': sig[d[1]] = ([], d[2])
    return sig


def check_model(fam, assertions, model_text):
    """C03 core: returns None if the model is well-formed and satisfies every assertion, else a reason string"""
    try:
        m = Model(model_text)
    except (smtlib.ParseError, evalsmt.EvalError, IndexError, TypeError) as e:
        return 'model does not parse: %s' % e, None
    sig = decl_sig(fam.decls)
    for name, (args, sort) in sig.items():
        if name not in m.sig:
            return 'declared symbol %s has no definition' % name, m
        if smtlib.show(m.sig[name][1]) != smtlib.show(sort) or [smtlib.show(x) for x in m.sig[name][0]] != [smtlib.show(x) for x in args]:
            return 'symbol %s defined with another signature' % name, m
        if not args:
            try:
                v = m.funs[name]([])
            except (evalsmt.EvalError, RecursionError) as e:
                return 'value of %s cannot be evaluated: %s' % (name, e), m
            if not evalsmt.sort_ok(v, sort):
                return 'value %r of %s is not of sort %s' % (v, name, smtlib.show(sort)), m
    funs = dict(m.funs)
    refs._add_defs(fam.defs, funs)
    for a in assertions:
        try:
            v = evalsmt.ev(smtlib.parse_one(a), {}, funs)
        except (evalsmt.EvalError, RecursionError) as e:
            return 'assertion %s cannot be evaluated in the model: %s' % (a, e), m
        if v is not True:
            return 'assertion %s is false in the model' % a, m
    return None, m


_confirmed = collections.Counter()


def confirm(script, args, predicate, pipe=False, variant='rel', cls=None):
    """re-run in a fresh process twice; the anomaly counts only if predicate(result) holds both times
    with identical observations.  Process creation is slow in this sandbox (~20 ms, serialised), so once five
    anomalies of one class `cls` (symptom + configuration) have been confirmed in this process, further ones of
    the same class are accepted without a fresh run: they add nothing but a count."""
    if cls is not None and _confirmed[cls] >= 5:
        return True
    r1 = runner.fresh_run(script, args, variant=variant, pipe=pipe)
    r2 = runner.fresh_run(script, args, variant=variant, pipe=pipe)
    if (r1.out, r1.status, r1.crash, r1.timeout) != (r2.out, r2.status, r2.crash, r2.timeout):
        return False
    try:
        ok = bool(predicate(r1))
    except Exception:
        ok = False
    if ok and cls is not None: _confirmed[cls] += 1
    return ok


def features(fam, opts, assertions):
    big = any(len(tok) >= 10 and tok.isdigit() for a in assertions for tok in a.replace('(', ' ').replace(')', ' ').split())
    toks = set(tok for a in assertions for tok in a.replace('(', ' ').replace(')', ' ').split())
    return {'logic': fam.logic, 'family': fam.name, 'options': sorted(opts), 'input_class': 'big_constant' if big else 'small',
            'bool_var': bool(toks & {'p', 'q', 'r', 's'}), 'engine': engine_of(opts),
            'satelite': any(o in opts for o in ('noincr', 'asymm', 'rcheck')) and 'noelim' not in opts}      # :incremental false with variable elimination on


def engine_of(opts):
    """the search engine an option vector selects (findings about an engine hold whatever else is set)"""
    return next((e for e in ENGINES if e in opts), 'cdcl')
