"""Common machinery of all checks: parallel exploration, violation records, known-findings matching,
replay files, evidence files."""
import os, sys, json, time, hashlib, multiprocessing, traceback, collections

ROOT = os.path.dirname(os.path.dirname(os.path.abspath(__file__)))
FINDINGS_FILE = os.path.join(ROOT, 'known_findings.json')
OUT_ROOT = os.environ.get('VERIF_OUT_ROOT', ROOT)   # evidence/ and replays/ (redirected by bin/seedtest)
NPROC = int(os.environ.get('VERIF_NPROC', '16'))


def seed():
    try:
        return int(os.environ.get('VERIF_SEED', '0'))
    except ValueError:
        return 0


def deadline_s(tier):
    d = os.environ.get('VERIF_DEADLINE_S')
    if d:
        return float(d)
    return 200.0 if tier == 'quick' else 2400.0


def load_findings(pid):
    try:
        with open(FINDINGS_FILE) as f:
            data = json.load(f)
    except FileNotFoundError:
        return []
    return [e for e in data.get('findings', []) if e.get('property') == pid and e.get('status') == 'known']


def matches(finding, record):
    """a finding suppresses a violation only if ALL its match fields equal the record's (lists = alternatives)"""
    for k, v in finding.get('match', {}).items():
        rv = record.get(k)
        if isinstance(v, list):
            if isinstance(rv, list):
                if sorted(rv) != sorted(v): return False
            elif rv not in v:
                return False
        elif rv != v:
            return False
    return True


class Check:
    def __init__(self, pid, tier, level, rule):
        self.pid = pid; self.tier = tier; self.level = level; self.rule = rule
        self.t0 = time.time()
        self.deadline = self.t0 + deadline_s(tier)
        self.cov = collections.Counter()
        self.extra = {}
        self.samples = []
        self.violations = []     # (record, replay_text, ext)
        self.bounds_done = []
        self.exhaustive = True
        self.assumptions = []
        self.distinct = set()
        self.states = set()

    # ---- coverage -------------------------------------------------------------------------------
    def merge(self, res):
        """merge a task result dict: {'cov': Counter, 'samples': [...], 'violations': [...], 'distinct': [...], 'states': [...]}"""
        self.cov.update(res.get('cov', {}))
        for s in res.get('samples', []):
            if len(self.samples) < 8: self.samples.append(s)
        for v in res.get('violations', []):
            self.violations.append(v)
        for d in res.get('distinct', []):
            self.distinct.add(d)
        for d in res.get('states', []):
            self.states.add(d)

    def out_of_time(self):
        return time.time() > self.deadline

    def run_stage(self, name, tasks, fn, init=None, chunks=1):
        """run one bound to completion (a stage is never cut short); returns False if skipped for lack of time"""
        if self.out_of_time():
            self.exhaustive = False
            self.extra.setdefault('stages_skipped_for_deadline', []).append(name)
            return False
        tasks = list(tasks)
        t = time.time()
        for res in pmap(fn, tasks, init):
            self.merge(res)
        self.bounds_done.append({'stage': name, 'tasks': len(tasks), 'wall_s': round(time.time() - t, 2)})
        print('[%s %6.1fs] stage done: %s (%d tasks, %.1fs) executions=%d violations=%d' % (self.pid, time.time() - self.t0, name, len(tasks), time.time() - t, self.cov.get('executions', 0), len(self.violations)), file=sys.stderr, flush=True)
        return True

    # ---- violations -----------------------------------------------------------------------------
    def finish(self):
        findings = load_findings(self.pid)
        hit = {}
        unknown = []
        for rec, text, ext in self.violations:
            f = next((f for f in findings if matches(f, rec)), None)
            if f is not None:
                hit.setdefault(f['id'], [f, 0])[1] += 1
            else:
                unknown.append((rec, text, ext))
        for fid, (f, n) in hit.items():
            print('KNOWN-FINDING: property=%s %s [%s, %d cases this run]' % (self.pid, f.get('what', ''), fid, n))
        allc = collections.Counter(json.dumps({k: rec.get(k) for k in ('symptom', 'site', 'input_class')}, sort_keys=True) for rec, _, _ in unknown)
        if allc: self.extra['unlisted_violation_classes'] = [{'class': json.loads(k), 'cases': n} for k, n in allc.most_common(60)]
        per_class = collections.Counter()
        nviol = 0
        for rec, text, ext in unknown:
            cls = json.dumps({k: rec.get(k) for k in ('symptom', 'logic', 'site', 'input_class')}, sort_keys=True)
            per_class[cls] += 1
            if per_class[cls] > 2:      # at most two replays per class, so that every class gets reported
                continue
            nviol += 1
            if nviol > 60: break
            d = os.path.join(OUT_ROOT, 'replays', self.pid)
            os.makedirs(d, exist_ok=True)
            h = hashlib.sha1((cls + text).encode('latin-1', 'replace')).hexdigest()[:10]
            path = os.path.join(d, '%s.%s' % (h, ext))
            with open(path, 'w', encoding='latin-1', errors='replace') as fh:
                fh.write(text)
            with open(path + '.json', 'w') as fh:
                json.dump(rec, fh, indent=1, sort_keys=True, default=str)
            print('VIOLATION property=%s replay=%s' % (self.pid, path))
            print('  ' + json.dumps(rec, default=str)[:600])
        self.write_evidence(len(unknown), {k: v[1] for k, v in hit.items()})
        sys.stdout.flush()
        return 1 if unknown else 0

    def write_evidence(self, nviol, known):
        cov = dict(self.cov)
        ev = {'property_id': self.pid, 'tier': self.tier, 'seed': seed(), 'level': self.level,
              'wall_s': round(time.time() - self.t0, 2), 'violations': nviol, 'assumptions': self.assumptions}
        c = {'rule': self.rule, 'samples': self.samples[:8] or ['(none)'], 'exhaustive': bool(self.exhaustive),
             'bounds_completed': self.bounds_done, 'counters': cov, 'known_findings_hit': known}
        c['evaluations'] = int(cov.get('executions', 0)) or int(sum(cov.values()))
        c['distinct_nontrivial'] = int(getattr(self, 'distinct_count', None) or len(self.distinct))
        if self.level == 'model_checking':
            c['states'] = max(len(self.states), 1) if self.states else int(cov.get('states', 0))
            c['transitions'] = int(cov.get('transitions', 0))
            c['traces_validated_against_impl'] = int(cov.get('traces_validated', cov.get('executions', 0)))
        c.update(self.extra)
        ev['coverage'] = c
        d = os.path.join(OUT_ROOT, 'evidence')
        os.makedirs(d, exist_ok=True)
        tmp = os.path.join(d, self.pid + '.json.tmp')
        with open(tmp, 'w') as f:
            json.dump(ev, f, indent=1, default=str)
        os.replace(tmp, os.path.join(d, self.pid + '.json'))


# ---- parallel map ------------------------------------------------------------------------------------
_fn = None


def _call(task):
    try:
        t = time.time()
        r = _fn(task)
        if os.environ.get('VERIF_DEBUG'):
            print('  [task %.1fs pid %d] %r' % (time.time() - t, os.getpid(), task if len(repr(task)) < 150 else repr(task)[:150]), file=sys.stderr, flush=True)
        return r
    except Exception:
        return {'cov': {'task_errors': 1}, 'violations': [], 'samples': [], 'error': traceback.format_exc()}


def _init(fn, init):
    global _fn
    _fn = fn
    if init: init()


def pmap(fn, tasks, init=None, nproc=None):
    nproc = nproc or NPROC
    if nproc <= 1 or len(tasks) <= 1:
        _init(fn, init)
        for t in tasks:
            r = _call(t)
            if 'error' in r: raise RuntimeError('task failed:\n' + r['error'])
            yield r
        return
    ctx = multiprocessing.get_context('fork')
    with ctx.Pool(min(nproc, len(tasks)), initializer=_init, initargs=(fn, init)) as pool:
        for r in pool.imap_unordered(_call, tasks, 1):
            if 'error' in r:
                pool.terminate()
                raise RuntimeError('task failed:\n' + r['error'])
            yield r


class USet(set):
    """set with a list-like append, so that per-task results are de-duplicated before they are sent back"""
    append = set.add


def new_result():
    return {'cov': collections.Counter(), 'samples': [], 'violations': [], 'distinct': USet(), 'states': USet()}
