"""C11 (theory clauses are theory-valid), C12 (learnt/derived clauses are RUP), C13 (preprocessing preserves
satisfiability and models), C26 (Farkas certificates): every execution of the script families, histories and
engine deviations is run with the hook trace on and every traced fact is judged."""
import itertools
from . import core, runner, refs, smtlib, evalsmt, families as F, scriptmc as S, histories as H, tracemon as T

PROP_POOL_CLAUSES = ['(or p q r)', '(or (not p) q s)', '(or p (not q) r)', '(or (not p) (not q) (not r))', '(or (not r) s)', '(or r (not s))', '(or p (not r) (not s))', '(or (not p) r s)',
                     '(or q (not s))', '(or (not q) s p)', '(xor p q r)', '(= (and p q) (or r s))']
# clauses over two Boolean variables and four order atoms (A and B imply C; A, B, D form a cycle): conflicts here run through
# theory-propagated literals on several decision levels, which the family sets (<= 3 assertions) never produce
_A, _B, _C, _D = '(< x y)', '(< y z)', '(< x z)', '(< z x)'
LRA_POOL_CLAUSES = ['(or p q)', '(or (not p) %s)' % _A, '(or (not q) %s)' % _B, '(or (not %s) (not %s) q)' % (_A, _C), '(or (not %s) (not q))' % _C, '(or (not p) %s)' % _B, '(or (not q) %s)' % _A,
                    '(or p (not %s))' % _D, '(or q %s)' % _C, '(or (not %s) p)' % _C, '(or %s (not %s) q)' % (_D, _A), '(or (not %s) (not q) %s)' % (_D, _C), '(or %s %s)' % (_A, _B), '(or (not %s) (not p) %s)' % (_B, _D)]
# binary clauses over bound atoms of x, y and x + y and two Boolean variables: bound atoms propagate each other in the theory
# (x >= 5 gives x >= 0 and not x <= 2, ...), so reasons of BCP-implied literals contain theory-propagated literals.  The first six
# are the clauses of the demonstration of seeded/C12 (the family was added after that seed had been missed).
BOUND_POOL_CLAUSES = ['(or (not p) (not q))', '(or (>= x 0) (not (<= x 2)))', '(or (not p) (not (>= y 1)))', '(or (<= (+ y x) 0) (>= x 5))', '(or (>= y 2) (not (<= y 0)))', '(or (>= y 2) (not (>= x 5)))',
                      '(or p (>= x 5))', '(or q (<= y 0))', '(or (not q) (>= y 1))', '(or (<= x 2) (>= y 2))', '(or (not (>= x 0)) (<= (+ y x) 0))', '(or p q)', '(or (not (<= (+ y x) 0)) (<= y 0))',
                      '(or (>= x 0) (>= y 1))', '(or (not (>= y 2)) p)', '(or (<= x 2) (not q))']
ENGINE_VECS = {'C11': [(), ('lookahead',), ('picky',), ('ghost',), ('noincr',), ('proofs',), ('itp',)],
               'C12': [(), ('lookahead',), ('picky',), ('ghost',), ('noincr',), ('asymm',), ('rcheck',), ('noelim',), ('proofs',), ('ccmin0',), ('restart1',)],
               'C13': [(), ('proofs',), ('nosubst',), ('itp',)],
               'C26': [(), ('itp',), ('proofs',), ('noincr',), ('lookahead',)]}
LA_FAMS = ['QF_LRA', 'QF_LIA', 'QF_UFLRA', 'QF_UFLIA', 'QF_ALIA', 'QF_ALRA', 'QF_AUFLIA', 'QF_AUFLRA', 'QF_AUFLIRA']


def sort_lookup(tr):
    d = {name: sort for name, args, sort in tr.decls}
    def int_sorted(vtext):
        t = vtext.strip()
        if t.startswith('|') and t.endswith('|'): return d.get(t) == 'Int' or d.get(t[1:-1]) == 'Int'
        if t.startswith('('):
            head = t[1:].split()[0]
            if head in ('select',): return False if 'Real' in ''.join(d.values()) and 'Int' not in ''.join(d.values()) else True
            return d.get(head) == 'Int'
        return d.get(t) == 'Int'
    return int_sorted


def judge(prop, fam, opts, script, r, res, ctx, levels=None):
    """levels: for C13 a list (per check-sat, in order) of the script's active assertion texts"""
    cov = res['cov']
    if r.timeout or r.crash:
        cov['timeouts_or_crashes'] += 1; return
    tr = T.Trace(r.trace)
    def viol(sym, site, what, extra=None):
        rec = dict(S.features(fam, opts, levels[-1] if levels else []), symptom=sym, site=site, input_class=ctx, what=what[:400])
        if extra: rec.update(extra)
        res['violations'].append((rec, script, 'smt2'))
    if prop == 'C11':
        for hook, lits, raw in T.theory_clauses(tr):
            cov['theory_clauses'] += 1; cov['hook_' + hook] += 1
            res['distinct'].append((fam.name, hook, tuple(sorted(lits))))
            if T.clause_invalid(tr, lits):
                viol('invalid_theory_clause:' + hook, hook, 'the clause %s has a certified counter-model' % lits)
    elif prop == 'C12':
        n, bad = T.check_rup(tr)
        cov['derived_clauses'] += n
        for kind, pl in tr.events:
            if kind == 'DERIVED': cov['site_' + pl[0]] += 1; res['distinct'].append((fam.name, pl[0], tuple(sorted(tr.lit(l) or str(l) for l in pl[1]))))
        for site, cl, idx in bad[:3]:
            viol('non_rup:' + site, site, 'derived clause #%d %s = %s is not implied by unit propagation from the clauses known before it' % (idx, cl, [tr.lit(l) for l in cl]))
    elif prop == 'C26':
        int_sorted = sort_lookup(tr)
        evs = tr.events
        for i, (kind, pl) in enumerate(evs):
            if kind != 'FARKAS': continue
            cov['farkas_records'] += 1
            res['distinct'].append((fam.name, tuple(sorted((p, str(c), a) for p, c, a in pl))))
            why = T.check_farkas(pl, int_sorted)
            if why:
                viol('bad_farkas', 'storeExplanation', '%s: %s' % (why, [('+' if p else '-') + str(c) + ' ' + a for p, c, a in pl]))
                continue
            # the explanation literals are the conflict literals given to the SAT engine (next TCONFLICT, if the conflict is fetched)
            for kind2, pl2 in evs[i + 1:]:
                if kind2 in ('FARKAS', 'CHECK'): break
                if kind2 == 'TCONFLICT':
                    got = set()
                    for l in pl2:
                        t = tr.var.get(abs(l)); got.add((l < 0, t))      # conflict clause literal is the negation of the asserted literal
                    want = set((p, a) for p, c, a in pl)
                    if any(t is None for _, t in got):
                        cov['conflict_with_unannounced_var'] += 1; break
                    if not all(t.startswith('(<= ') for _, t in got):
                        # in a combined logic the conflict handed over may be the one of the UF solver (equalities, UF atoms): not this record's
                        cov['next_conflict_from_another_solver'] += 1; break
                    if got != want:
                        viol('bad_farkas:literals_differ_from_conflict', 'getConflict', 'certificate over %s, conflict clause over %s' % (sorted(want), sorted(got)))
                    cov['farkas_matched_with_conflict'] += 1
                    break
    elif prop == 'C13':
        # replay frames: OUT = PRE formulas of the active frame ids at each CHECK end
        stack = [0]; pre = {}; ci = 0; decls = tr.decl_text()
        user_decls = fam.decls
        for kind, pl in tr.events:
            if kind == 'FRAME':
                if pl[0] == 'push': stack.append(pl[1])
                else:
                    if pl[1] in stack: stack.remove(pl[1])
            elif kind == 'PRE':
                pre.setdefault(pl[0], []).append(pl[2])
            elif kind == 'CHECK' and pl[0] == 'begin':
                ci += 1      # a check-sat answered from a remembered unsat frame returns before its 'end' line: count the begins
            elif kind == 'CHECK' and pl[0] == 'end':
                if levels is None or ci < 1 or ci > len(levels): continue
                A = levels[ci - 1]
                OUT = [f for fid in stack for f in pre.get(fid, [])]
                cov['checks_judged'] += 1
                res['distinct'].append((fam.name, tuple(sorted(A)), tuple(sorted(OUT))))
                if not A: continue
                # trace declarations cover every symbol of OUT; add the user's for A
                alld = _merge_decls(user_decls, tr)
                notA = '(not (and %s true))' % ' '.join(A)
                if OUT or True:
                    if refs.find_model('ALL', alld, OUT + [notA]) is not None:
                        viol('preprocessing_unsound', 'giveToSolver', 'a certified model satisfies the preprocessed formulas %s but not the assertions %s' % (OUT, A))
                        continue
                if refs.find_model('ALL', alld, A) is not None and OUT and refs.is_unsat('ALL', alld, OUT):
                    viol('preprocessing_incomplete', 'giveToSolver', 'the assertions %s have a certified model but the preprocessed formulas %s are refuted by z3 and cvc5' % (A, OUT))


def _merge_decls(user_decls, tr):
    have = set(d[1] for d in smtlib.parse_all(user_decls) if d[0] in ('declare-fun', 'declare-const'))
    sorts = set(d[1] for d in smtlib.parse_all(user_decls) if d[0] == 'declare-sort')
    extra = []
    for name, args, sort in tr.decls:
        n = name[1:-1] if name.startswith('|') else name
        if n in have or name in have: continue
        for s in (args + ' ' + sort).replace('(', ' ').replace(')', ' ').split():
            if s not in ('Bool', 'Int', 'Real', 'Array') and s not in sorts:
                sorts.add(s); extra.append('(declare-sort %s 0)' % s)
        extra.append('(declare-fun %s (%s) %s)' % (name, args, sort))
    return user_decls + ''.join(extra)


def set_task(t):
    prop, famname, pool, n, optvecs, start, step = t
    fam = F.FAMILIES[famname]
    atoms = fam.atoms if pool == 'full' else fam.core
    extra = fam.extra if pool == 'full' else ()
    res = core.new_result(); cov = res['cov']
    w = S.worker()
    if pool in ('clauses', 'lraclauses', 'boundclauses'):
        sets = [list(c) for k in (5, 6, 7) for c in itertools.combinations({'clauses': PROP_POOL_CLAUSES, 'lraclauses': LRA_POOL_CLAUSES, 'boundclauses': BOUND_POOL_CLAUSES}[pool], k)]
        gen = sets[start::step]
    else:
        gen = itertools.islice(F.assertion_sets(atoms, n, extra), start, None, step)
    for assertions in gen:
        for opts in optvecs:
            script = S.build_script(fam, assertions, opts, models=False)
            r = w.run(script, trace=True, timeout=5)
            cov['executions'] += 1
            judge(prop, fam, opts, script, r, res, 'single_query', [assertions])
        if len(res['samples']) < 1: res['samples'].append({'script': script, 'trace_head': r.trace[:400]})
    return res


def hist_task(t):
    prop, famname, k, L, opts, start, step = t
    fam = F.FAMILIES[famname]; pool = H.POOLS[famname][:k]
    res = core.new_result(); cov = res['cov']
    w = S.worker()
    for hist in H.enumerate_histories(k, L, with_query=False)[start::step]:
        if 'lookahead' in opts and 'push' in hist: cov['skipped_known_divergence'] += 1; continue
        script = H.render(fam, pool, hist, opts, '', models=False)
        r = w.run(script, trace=True, timeout=5)
        cov['executions'] += 1; cov['transitions'] += len(hist)
        ref = H.RefStack(); levels = []
        for c in hist:
            ref.apply(c)
            if c == 'check': levels.append([pool[i] for i in ref.active()])
        judge(prop, fam, opts, script, r, res, 'history', levels)
        if len(res['samples']) < 1: res['samples'].append({'history': list(hist), 'trace_head': r.trace[:300]})
    return res


def dl_task(t):
    """difference logic: three asserted constraints + a disjunction (a4 or p) over the 30 constraints with bounds -1, 0 on x, y, z:
    the solver deduces a4 (or its negation) from paths through the asserted edges and has to explain it, with parallel
    weaker/stronger edges around (the family sets never have three constraints and a deducible fourth atom)"""
    from . import chk_misc
    prop, famname, start, step = t
    fam = F.FAMILIES[famname]
    res = core.new_result(); cov = res['cov']
    w = S.worker()
    small = [a for a in chk_misc.dl_atoms() if not a.endswith(' 1)')]
    jobs = [(c, d) for c in itertools.combinations(range(len(small)), 3) for d in range(len(small)) if d not in c]
    for c, d in jobs[start::step]:
        assertions = [small[i] for i in c] + ['(or %s p)' % small[d]]
        script = S.build_script(fam, assertions, (), models=False)
        r = w.run(script, trace=True, timeout=5)
        cov['executions'] += 1
        judge(prop, fam, (), script, r, res, 'difference_paths', [assertions])
        if len(res['samples']) < 1: res['samples'].append({'script': script, 'trace_head': r.trace[:400]})
    return res


RULES = {
    'C11': 'every TCONFLICT / TREASON / TSPLIT / TDEDUCE0 line (hooks in THandler, TheoryIF) of every execution: the clause must have no certified counter-model; distinct = distinct (family, hook, clause)',
    'C12': 'every DERIVED line (analyze, analyzeFinal, SatELite eliminateVar/substitute resolvents, strengthenClause, split units) of every execution must be confirmed by reverse unit propagation against ORIG + theory clauses + earlier derived clauses; distinct = distinct (family, site, clause)',
    'C13': 'at every check-sat: the conjunction OUT of the PRE formulas (hook in MainSolver::giveToSolver) of the active frames vs the script\'s assertions A on the active levels: OUT and not A has no certified model; A satisfiable => OUT not refuted; distinct = distinct (family, A, OUT)',
    'C26': 'every FARKAS record (hook in LASolver::storeExplanation): positive coefficients, all variables cancel, false constant statement (strictness / integer tightening respected), same literals as the conflict handed to the SAT engine; distinct = distinct records',
}


def run(prop, tier):
    chk = core.Check(prop, tier, 'exploration', 'all assertion sets (size bound as C01), histories and engine/tracking deviations of the families, executed with the guarded trace hooks on; ' + RULES[prop])
    chk.assumptions = ['the hooks only observe (src/common/VerifTrace.h); reference layer as in C01/C02 for C11/C13; C12 and C26 are decided by plain Python arithmetic']
    runner.build('rel'); runner.harness('rel', 'osmt_worker')
    vecs = ENGINE_VECS[prop]
    fams = list(F.FAMILIES.keys()) if prop in ('C11', 'C12', 'C13') else LA_FAMS
    if prop in ('C11',): fams = [f for f in fams if f != 'PROP']
    coref = [f for f in F.LOGICS_CORE + ['PROP'] if f in fams]
    hf = [f for f in H.HIST_LOGICS_QUICK if f in fams]
    def st(fs, pool, n, vs, split): return [(prop, f, pool, n, vs, s, split) for f in fs for s in range(split)]
    chk.run_stage('n<=2, full pools, %d option vectors' % len(vecs), st(fams, 'full', 2, vecs, 8), set_task)
    chk.run_stage('n<=3, 6-atom pools, default options', st(coref, 'core', 3, [()], 8), set_task)
    if prop == 'C12':
        chk.run_stage('propositional clause sets (5-7 of 12 clauses over 4 variables), %d option vectors' % len(vecs), st(['PROP'], 'clauses', 0, vecs, 16), set_task)
        chk.run_stage('clause sets over 2 Boolean variables and 4 order atoms (5-7 of 14 clauses; theory propagation inside conflict analysis), %d option vectors' % len(vecs[:6]), st(['QF_LRA'], 'lraclauses', 0, vecs[:6], 32), set_task)
        chk.run_stage('binary clause sets over bound atoms of x, y, x+y and 2 Boolean variables (5-7 of 16 clauses), default / lookahead / ghost-vars', st(['QF_LRA'], 'boundclauses', 0, vecs[:4:1][:1] + [('lookahead',), ('ghost',)], 64), set_task)
    chk.run_stage('histories L<=5 (4 assertions), default options', [(prop, f, 4, 5, (), s, 4) for f in hf for s in range(4)], hist_task)
    if prop == 'C11':
        dlf = ['QF_RDL'] if tier == 'quick' else ['QF_RDL', 'QF_IDL']
        chk.run_stage('difference logic: every triple of 30 difference constraints + a disjunction over a fourth (deduced atoms with parallel edges)', [(prop, f, s, 64) for f in dlf for s in range(64)], dl_task)
    if tier == 'thorough':
        chk.run_stage('n<=3, 6-atom pools, all option vectors', st(coref, 'core', 3, vecs[1:], 32), set_task)
        if prop != 'C13':      # C13 needs two reference queries per set: this stage did not finish within 65 minutes when it was tried
            chk.run_stage('n<=3, full pools, default options', st(fams, 'full', 3, [()], 64), set_task)
        for o in vecs[1:4]:
            chk.run_stage('histories L<=5, options %s' % (o,), [(prop, f, 4, 5, o, s, 4) for f in hf for s in range(4)], hist_task)
        chk.run_stage('histories L<=7 (3 assertions)', [(prop, f, 3, 7, (), s, 16) for f in hf for s in range(16)], hist_task)
    chk.extra['oracle'] = dict(refs.stats)
    return chk.finish()
