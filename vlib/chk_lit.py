"""C16: numeric literals are read and printed exactly.
(a) harness/litmc.cc: every string up to a length bound over {0,1,9,.,/,-} + structured long literals through
    ArithLogic::mkConst(const char*) in real-only, int-only and mixed logics;
(b) every numeral/decimal token over {0,1,9} up to the bound + long ones through the real lexer
    (assert (= x LIT)) / get-value / get-model, Real and Int logics;
(c) every value of a boundary set printed by get-value/get-model and read back."""
import itertools
from fractions import Fraction
from . import core, runner, smtlib, evalsmt, scriptmc as S, chk_native as N


def tokens(maxlen):
    out = []
    for n in range(1, maxlen + 1):
        for t in itertools.product('019', repeat=n):
            s = ''.join(t); out.append(s)
            for k in range(1, n):
                out.append(s[:k] + '.' + s[k:])
    for k in (1, 2, 5, 17, 40):
        z = '0' * k
        out += [z + '7', '7.' + z + '3', '7.5' + z, '1' + z, z + '.' + z, '0.' + z + '1', '9' * k + '.' + '9' * k]
    out += ['123456789012345678901234567890', '123456789012345678901234567890.000000000000000000001', '2147483647', '2147483648', '4294967296', '9223372036854775808', '18446744073709551617']
    # SMT-LIB tokens only: a numeral is 0 or has no leading zero ("01" is lexed as the two numerals 0 and 1)
    import re
    ok = re.compile(r'(0|[1-9][0-9]*)(\.[0-9]+)?$')
    return [t for t in out if ok.match(t)]


def boundary_values():
    ints = [0, 1, 2, 3, 7, 2 ** 15, 2 ** 31 - 1, 2 ** 31, 2 ** 31 + 1, 2 ** 32 - 1, 2 ** 32, 2 ** 53, 2 ** 53 + 1, 2 ** 63 - 1, 2 ** 63, 2 ** 64 + 3, 10 ** 30 + 7]
    vals = set()
    for n in ints:
        for d in ints:
            if d == 0: continue
            vals.add(Fraction(n, d)); vals.add(Fraction(-n, d))
    return sorted(vals)


def lit_task(t):
    kind, items = t
    res = core.new_result(); cov = res['cov']
    w = S.worker()
    B = 8
    for i in range(0, len(items), B):
        chunk0 = items[i:i + B]
        isint = (lambda c: '.' not in c) if kind == 'token' else (lambda c: c.denominator == 1)
        groups = [('QF_LRA', 'Real', chunk0), ('QF_LIA', 'Int', [c for c in chunk0 if isint(c)]), ('QF_LIA', 'Int', [c for c in chunk0 if not isint(c)])]
        for logic, sort, chunk in groups:
            if not chunk: continue
            decls = ''.join('(declare-fun x%d () %s)' % (j, sort) for j in range(len(chunk)))
            if kind == 'token':
                terms = chunk; want = [Fraction(c) for c in chunk]
            else:
                want = chunk
                terms = []
                for v in chunk:
                    a = str(abs(v.numerator)) if v.denominator == 1 else '(/ %d %d)' % (abs(v.numerator), v.denominator)
                    terms.append('(- %s)' % a if v < 0 else a)
            asserts = ''.join('(assert (= x%d %s))(echo "@@")' % (j, tm) for j, tm in enumerate(terms))
            script = '(set-option :produce-models true)(set-logic %s)%s(echo "@@")%s(check-sat)(get-value (%s))(get-model)' % (logic, decls, asserts, ' '.join('x%d' % j for j in range(len(chunk))))
            r = w.run(script, timeout=10)
            cov['executions'] += 1
            if r.crash or r.timeout:
                # isolate the culprit
                for j, tm in enumerate(terms):
                    s1 = '(set-option :produce-models true)(set-logic %s)(declare-fun x0 () %s)(assert (= x0 %s))(check-sat)(get-value (x0))' % (logic, sort, tm)
                    r1 = w.run(s1, timeout=10)
                    if r1.crash or r1.timeout:
                        if S.confirm(s1, (), lambda x: bool(x.crash or x.timeout)):
                            rec = {'logic': logic, 'options': [], 'symptom': 'literal:crash-in-text-front-end', 'site': (r1.crash or 'timeout'), 'what': 'literal %s: %s %s' % (tm, r1.crash or 'timeout', r1.err[:120])}
                            res['violations'].append((rec, s1, 'smt2'))
                continue
            pieces = r.out.split('@@\n')
            errs = [('error' in p) for p in pieces[1:1 + len(chunk)]]
            tail = S.blocks(pieces[-1]) if pieces else []
            vals = {}
            if len(tail) >= 2 and tail[0] == 'sat':
                try:
                    for pair in smtlib.parse_one(tail[1]):
                        vals[pair[0]] = evalsmt.ev(pair[1], {}, {})
                    if len(tail) >= 3:
                        funs, _ = evalsmt.load_model(smtlib.parse_one(tail[2]))
                        for nm, f in funs.items():
                            mv = f([])
                            if nm in vals and not evalsmt.veq(mv, vals[nm]):
                                rec = {'logic': logic, 'options': [], 'symptom': 'literal:model-vs-value', 'site': 'print', 'what': 'get-model and get-value print different values for %s' % nm}
                                res['violations'].append((rec, script, 'smt2'))
                except (smtlib.ParseError, evalsmt.EvalError, IndexError, TypeError) as e:
                    rec = {'logic': logic, 'options': [], 'symptom': 'literal:unreadable-output', 'site': 'print', 'what': 'printed values do not read back: %s: %s' % (e, tail[1][:120])}
                    res['violations'].append((rec, script, 'smt2'))
                    continue
            if not any(errs) and tail[:1] != ['sat']:
                rec = {'logic': logic, 'options': [], 'symptom': 'literal:accepted-literals-not-sat', 'site': 'text', 'what': 'x_i = literal for distinct x_i answered %s' % tail[:1]}
                res['violations'].append((rec, script, 'smt2'))
            for j, (tm, wv) in enumerate(zip(terms, want)):
                cov['literals'] += 1
                res['distinct'].append((kind, logic, tm))
                must_reject = (sort == 'Int' and wv.denominator != 1) or (sort == 'Int' and kind == 'token' and '.' in tm)
                if errs[j]:
                    cov['rejected'] += 1
                    if not must_reject and not (sort == 'Int'):
                        rec = {'logic': logic, 'options': [], 'symptom': 'literal:well-formed-rejected', 'site': 'text', 'what': 'well-formed literal %s rejected: %s' % (tm, pieces[1 + j][:100])}
                        res['violations'].append((rec, script, 'smt2'))
                    continue
                if must_reject:
                    rec = {'logic': logic, 'options': [], 'symptom': 'literal:non-integer-accepted-in-int-logic', 'site': 'text', 'what': 'literal %s accepted as an Int term' % tm}
                    res['violations'].append((rec, script, 'smt2')); continue
                if any(errs): continue     # another literal of the chunk was rejected: values are still comparable only if sat printed
                got = vals.get('x%d' % j)
                if got is None: continue
                cov['values_compared'] += 1
                if not evalsmt.veq(got, wv):
                    rec = {'logic': logic, 'options': [], 'symptom': 'literal:wrong-value-through-text', 'site': 'text', 'what': '%s read and printed back as %s' % (tm, got)}
                    res['violations'].append((rec, script, 'smt2'))
        if len(res['samples']) < 1: res['samples'].append({'script': script[:300], 'stdout': r.out[-200:]})
    return res


def run(prop, tier):
    chk = N.NativeCheck('C16', tier, 'exploration',
                        '(a) every string of length <= L over {0 1 9 . / -} plus 80 structured long/odd literals through mkConst(const char*) in real-only, int-only and mixed logics, '
                        'each classified against the grammar -?D+(.D+)?(/D+(.D+)?)? (and a lenient reading) and an exact GMP value; '
                        '(b) every numeral/decimal token over {0 1 9} up to length L plus long ones through the lexer, (c) ~500 boundary rationals printed by get-value/get-model and read back; '
                        'distinct = distinct (route, logic, literal) cases')
    chk.assumptions = ['GMP / Python Fraction are the exact references', 'literal alphabet {0,1,9,.,/,-}: other digits behave like 1 and 9 in every branch of the scanners']
    L = 6 if tier == 'quick' else 7
    binary = runner.harness('rel', 'litmc'); runner.harness('rel', 'osmt_worker')
    res = N.run_shards(binary, [L], 16, 3000)
    N.absorb(chk, res, 'rel', replay_hint='replay: build/rel/harness/litmc replay <string>')
    chk.bounds_done.append({'stage': 'mkConst strings, length <= %d' % L, 'shards': len(res)})
    toks = tokens(5 if tier == 'quick' else 6)
    n = 16
    chk.run_stage('numeral/decimal tokens through the lexer (%d tokens x 2 logics)' % len(toks), [('token', toks[i::n]) for i in range(n)], lit_task)
    bv = boundary_values()
    chk.run_stage('boundary rationals printed and read back (%d values x 2 logics)' % len(bv), [('value', bv[i::n]) for i in range(n)], lit_task)
    chk.cov['executions'] += chk.cov['strings']
    chk.distinct_count = chk.cov['strings'] + len(chk.distinct)
    return chk.finish()
