"""Monitors over the hook trace (VerifTrace.h): theory-clause validity (C11), reverse unit propagation of every
derived clause (C12), preprocessing soundness/completeness (C13), Farkas certificates (C26)."""
from fractions import Fraction
from . import smtlib, evalsmt, refs


class Trace:
    def __init__(self, text):
        self.decls = []          # (name, argsorts text, sort text)
        self.var = {}            # int -> term text
        self.events = []         # (kind, payload)
        for ln in text.split('\n'):
            if not ln: continue
            if ln.startswith('DECL\t'):
                f = ln.split('\t'); self.decls.append((f[1], f[2], f[3]))
            elif ln.startswith('VAR\t'):
                f = ln.split('\t', 2); self.var[int(f[1])] = f[2]
            elif ln.startswith(('ORIG', 'TCONFLICT', 'TREASON', 'TSPLIT', 'TDEDUCE0')):
                f = ln.split(' ')
                self.events.append((f[0], [int(x) for x in f[1:]]))
            elif ln.startswith('DERIVED '):
                f = ln.split(' ')
                self.events.append(('DERIVED', (f[1], [int(x) for x in f[2:]])))
            elif ln.startswith('FARKAS'):
                items = []
                for it in ln.split('\t')[1:]:
                    sg, co, atom = it.split(' ', 2)
                    items.append((sg == '+', Fraction(co), atom))
                self.events.append(('FARKAS', items))
            elif ln.startswith('PRE\t'):
                f = ln.split('\t', 3)
                self.events.append(('PRE', (int(f[1]), f[2], f[3])))
            elif ln.startswith('FRAME\t'):
                f = ln.split('\t')
                self.events.append(('FRAME', (f[1], int(f[2]))))
            elif ln.startswith('CHECK\t'):
                f = ln.split('\t')
                self.events.append(('CHECK', tuple(f[1:])))

    def decl_text(self):
        out = []
        sorts = set()
        for name, args, sort in self.decls:
            for s in (args + ' ' + sort).replace('(', ' ').replace(')', ' ').split():
                if s not in ('Bool', 'Int', 'Real', 'Array') and s not in sorts:
                    sorts.add(s)
        return ''.join('(declare-sort %s 0)' % s for s in sorted(sorts)) + ''.join('(declare-fun %s (%s) %s)' % d for d in self.decls)

    def lit(self, l):
        t = self.var.get(abs(l))
        if t is None: return None
        return t if l > 0 else '(not %s)' % t


# ---------------------------------------------------------------- C11
def theory_clauses(tr):
    """yield (hook, clause as list of literal texts that must be T-valid as a disjunction, raw ints)"""
    for kind, pl in tr.events:
        if kind in ('TCONFLICT', 'TREASON', 'TSPLIT'):
            lits = [tr.lit(l) for l in pl]
            if None in lits or not lits: continue
            yield kind, lits, pl
        elif kind == 'TDEDUCE0':
            # deduced literal l from the theory literals on the trail: (not t1) or ... or l is valid
            l, rest = pl[0], pl[1:]
            lits = [tr.lit(l)] + [tr.lit(-t) for t in rest if abs(t) != abs(l)]
            if None in lits: continue
            yield kind, lits, pl


_valid_cache = {}


def clause_invalid(tr, lits, decls=None):
    """True iff a certified model falsifies the clause (i.e. satisfies all negated literals)"""
    key = (tuple(sorted(lits)),)
    d = decls if decls is not None else tr.decl_text()
    key = (d, tuple(sorted(lits)))
    if key in _valid_cache: return _valid_cache[key]
    neg = ['(not %s)' % l for l in lits]
    m = refs.find_model('ALL', d, neg)
    _valid_cache[key] = m is not None
    return m is not None


# ---------------------------------------------------------------- C12
def unit_propagate(db, assign):
    """assign: dict var->bool; returns True on conflict"""
    changed = True
    while changed:
        changed = False
        for c in db:
            un = None; nun = 0; sat = False
            for l in c:
                v = assign.get(abs(l))
                if v is None:
                    nun += 1; un = l
                    if nun > 1: break
                elif v == (l > 0):
                    sat = True; break
            if sat or nun > 1: continue
            if nun == 0: return True
            assign[abs(un)] = un > 0; changed = True
    return False


def rup(db, clause):
    assign = {}
    for l in clause:
        if assign.get(abs(l)) == (l > 0): return True      # tautology
        assign[abs(l)] = not (l > 0)
    return unit_propagate(db, assign)


def check_rup(tr):
    """returns list of (site, clause ints, index) that are not RUP w.r.t. everything known before"""
    db = []; bad = []; n = 0
    for kind, pl in tr.events:
        if kind in ('ORIG', 'TCONFLICT', 'TREASON', 'TSPLIT'):
            db.append(pl)
        elif kind == 'TDEDUCE0':
            db.append([pl[0]])
        elif kind == 'DERIVED':
            site, cl = pl
            n += 1
            if not rup(db, cl):
                bad.append((site, cl, n))
            db.append(cl)
    return n, bad


# ---------------------------------------------------------------- C26
def linear(t):
    """parsed term -> (dict var-text -> Fraction, constant)"""
    if isinstance(t, str):
        if evalsmt.NUM.match(t): return {}, Fraction(int(t))
        if evalsmt.DEC.match(t): return {}, Fraction(t)
        return {t: Fraction(1)}, Fraction(0)
    h = t[0]
    if h == '+':
        co = {}; c = Fraction(0)
        for a in t[1:]:
            d, k = linear(a); c += k
            for v, x in d.items(): co[v] = co.get(v, Fraction(0)) + x
        return co, c
    if h == '-' and len(t) == 2:
        d, k = linear(t[1]); return {v: -x for v, x in d.items()}, -k
    if h == '-':
        d, k = linear(t[1])
        for a in t[2:]:
            d2, k2 = linear(a); k -= k2
            for v, x in d2.items(): d[v] = d.get(v, Fraction(0)) - x
        return d, k
    if h == '*':
        # constant * term
        consts = Fraction(1); rest = None
        for a in t[1:]:
            d, k = linear(a)
            if not d: consts *= k
            elif rest is None: rest = (d, k)
            else: return {smtlib.show(t): Fraction(1)}, Fraction(0)
        if rest is None: return {}, consts
        return {v: x * consts for v, x in rest[0].items()}, rest[1] * consts
    if h == '/':
        d, k = linear(t[1]); d2, k2 = linear(t[2])
        if d2 or k2 == 0: return {smtlib.show(t): Fraction(1)}, Fraction(0)
        return {v: x / k2 for v, x in d.items()}, k / k2
    return {smtlib.show(t): Fraction(1)}, Fraction(0)


def check_farkas(items, int_sorted):
    """items: [(positive?, coeff, atom text '(<= c t)')]; returns None if valid certificate else reason"""
    total = {}; const = Fraction(0); strict = False
    for pos, co, atom in items:
        if co <= 0: return 'non-positive coefficient %s' % co
        a = smtlib.parse_one(atom)
        if not (isinstance(a, list) and len(a) == 3 and a[0] == '<='): return 'atom is not of the form (<= c t): %s' % atom
        dl, kl = linear(a[1]); dr, kr = linear(a[2])
        # expression e with e >= 0 (or > 0): positive literal: rhs - lhs >= 0 ; negative literal: lhs - rhs > 0
        d = {}
        for v, x in dr.items(): d[v] = d.get(v, Fraction(0)) + x
        for v, x in dl.items(): d[v] = d.get(v, Fraction(0)) - x
        k = kr - kl
        if not pos:
            d = {v: -x for v, x in d.items()}; k = -k
            all_int = all(x.denominator == 1 for x in d.values()) and k.denominator == 1 and all(int_sorted(v) for v in d)
            if all_int: k -= 1          # lhs - rhs > 0 over the integers: lhs - rhs - 1 >= 0
            else: strict = True
        for v, x in d.items(): total[v] = total.get(v, Fraction(0)) + co * x
        const += co * k
    left = {v: x for v, x in total.items() if x != 0}
    if left: return 'variables do not cancel: %s' % {v: str(x) for v, x in left.items()}
    # sum of (non-)negative expressions equals the constant: contradiction iff const < 0, or const == 0 with a strict member
    if const < 0 or (const == 0 and strict): return None
    return 'the weighted sum gives the true statement %s %s 0' % (const, '>' if strict else '>=')
