"""bin/verif replay <path>: replay one stored violation without the explorer.
  *.smt2  a script: run twice in fresh processes of build/rel/opensmt (file mode), print output and exit status, and the feature
          record stored next to it (<path>.json); the runs must agree with each other
  *.txt   a native-harness failure class: print it together with the command line that reproduces it (last line of the file)
Exit status: 0 if the replay could be performed and both runs agree, 2 otherwise."""
import json, os, subprocess, sys
from . import runner


def run(path):
    if not os.path.exists(path):
        print('no such replay file: %s' % path); return 2
    rec = None
    if os.path.exists(path + '.json'):
        rec = json.load(open(path + '.json'))
        print('recorded: %s' % json.dumps({k: rec[k] for k in rec if k != 'what'}, sort_keys=True))
        print('what:     %s' % rec.get('what', ''))
    text = open(path, encoding='latin-1').read()
    if path.endswith('.smt2'):
        runner.build('rel')
        script = text.split('\n; --- without the rejected command ---')[0].split('\n; versus\n')[0].split('\n; fresh: ')[0]
        variant = 'asan' if rec and rec.get('build') == 'asan' else 'rel'
        if variant == 'asan': runner.build('asan')
        outs = []
        for i in range(2):
            r = runner.fresh_run(script, variant=variant, timeout=60)
            outs.append((r.out, r.status, r.crash, r.timeout))
        r_out, status, crash, timeout = outs[0]
        print('--- script\n%s\n--- stdout (%s build)\n%s--- exit status %s%s%s' % (script, variant, r_out, status, ' ' + crash if crash else '', ' TIMEOUT' if timeout else ''))
        if r.err: print('--- stderr\n%s' % r.err[:2000])
        if outs[0] != outs[1]:
            print('the two replays differ'); return 2
        return 0
    print(text)
    lines = [l for l in text.strip().split('\n') if l.strip()]
    hint = lines[-1] if lines else ''
    if hint.startswith('build/') or hint.startswith('replay: build/'):
        cmd = hint.replace('replay: ', '')
        if '<' not in cmd:
            print('--- running: %s' % cmd)
            variant = cmd.split('/')[1]; name = cmd.split('/')[3].split()[0]
            runner.harness(variant, name)
            p = subprocess.run(cmd.split(), cwd=runner.ROOT, capture_output=True, text=True, timeout=600, errors='replace')
            print(p.stdout[-3000:]); print(p.stderr[-2000:])
        else:
            print('--- to reproduce, fill the placeholders in: %s' % cmd)
    return 0
