"""Checks whose explorer is a C++ harness linked against the library (ratmc, litmc, termmc, tsolvermc, ...).
The harness enumerates its space exhaustively in shards and prints
  COV\t<key>\t<int>   FAIL\t<class>\t<detail>   FAILCOUNT\t<class>\t<n>   SAMPLE\t<text>   STATE\t<key>
This wrapper builds it from the current tree, runs the shards in parallel, and turns failure classes into
violation records."""
import os, subprocess, re, collections, time
from concurrent.futures import ThreadPoolExecutor
from . import core, runner


def run_shards(binary, args, nshards, timeout, env=None):
    e = dict(os.environ); e.update(runner.SAN_ENV)
    if env: e.update(env)
    def one(i):
        try:
            p = subprocess.run([binary] + [str(a) for a in args] + [str(i), str(nshards)], capture_output=True, text=True, timeout=timeout, env=e, errors='replace')
            return i, p.returncode, p.stdout, p.stderr
        except subprocess.TimeoutExpired as ex:
            return i, 'timeout', (ex.stdout or b'').decode('latin-1') if isinstance(ex.stdout, bytes) else (ex.stdout or ''), ''
    with ThreadPoolExecutor(max_workers=core.NPROC) as ex:
        return list(ex.map(one, range(nshards)))


def absorb(chk, results, variant, prop_prefix=None, replay_hint=''):
    """merge shard outputs into the check; returns number of shards that died"""
    died = 0
    counts = collections.Counter(); first = {}
    for i, rc, out, err in results:
        for line in out.split('\n'):
            f = line.split('\t')
            if f[0] == 'COV' and len(f) == 3:
                if f[1] in chk.no_sum: chk.cov[f[1]] = max(chk.cov[f[1]], int(f[2]))
                else: chk.cov[f[1]] += int(f[2])
            elif f[0] == 'FAIL' and len(f) >= 3:
                first.setdefault(f[1], []).append('\t'.join(f[2:]))
            elif f[0] == 'FAILCOUNT' and len(f) == 3:
                counts[f[1]] += int(f[2])
            elif f[0] == 'SAMPLE' and len(f) >= 2:
                if len(chk.samples) < 8: chk.samples.append(f[1])
            elif f[0] == 'STATE' and len(f) >= 2:
                chk.states.add(f[1])
            elif f[0] == 'DISTINCT' and len(f) >= 2:
                chk.distinct.add(f[1])
        if rc != 0:
            died += 1
            tail = [l for l in (err or '').strip().split('\n') if l.strip()]
            site = next((l.strip() for l in tail if 'runtime error' in l or 'ERROR: AddressSanitizer' in l or 'WARNING: ThreadSanitizer' in l), tail[0].strip() if tail else '')
            site = re.sub(r'0x[0-9a-f]+', '0x..', site)[:200]
            rec = {'symptom': 'harness_died', 'site': re.sub(r'^.*?(src/[^ ]+).*runtime error: ', r'\1 ', site)[:160], 'variant': variant, 'what': 'shard %d of the %s harness ended with %s: %s' % (i, variant, rc, site), 'logic': None, 'options': []}
            chk.violations.append((rec, 'shard %d rc=%s\n%s\n%s' % (i, rc, '\n'.join(tail[:40]), replay_hint), 'txt'))
    for cls, n in counts.items():
        ex = first.get(cls, ['?'])
        rec = {'symptom': cls, 'site': cls.split(':', 1)[-1], 'variant': variant, 'cases': n, 'what': ex[0][:300], 'logic': None, 'options': []}
        chk.violations.append((rec, '%s\n%s\n%s' % (cls, '\n'.join(ex[:5]), replay_hint), 'txt'))
    return died


class NativeCheck(core.Check):
    no_sum = ()
