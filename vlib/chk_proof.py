"""C10: printed resolution proofs are closed, valid refutations of the CURRENT assertions.
Every unsat run of the families and histories with :produce-proofs; get-proof after every unsat answer; the
printed proof goes through an independent checker (vlib/proofcheck.py) and every leaf is judged against the
formulas handed to the CNF encoder for the active levels (hook trace) or as a theory lemma."""
import itertools
from . import core, runner, refs, smtlib, families as F, scriptmc as S, histories as H, tracemon as T, proofcheck as P, chk_trace


def snapshots(tr):
    """per CHECK end: (active frame ids, OUT formulas of the active frames)"""
    stack = [0]; pre = {}; out = []
    for kind, pl in tr.events:
        if kind == 'FRAME':
            if pl[0] == 'push': stack.append(pl[1])
            elif pl[1] in stack: stack.remove(pl[1])
        elif kind == 'PRE': pre.setdefault(pl[0], []).append(pl[2])
        elif kind == 'CHECK' and pl[0] == 'end':
            out.append((list(stack), [f for fid in stack for f in pre.get(fid, [])]))
    return out


def judge_proof(fam, opts, script, text, snap, tr, res, ctx):
    cov = res['cov']
    def viol(rule, what):
        rec = {'logic': fam.logic, 'family': fam.name, 'options': sorted(opts), 'symptom': 'bad_proof:' + rule, 'site': rule, 'input_class': ctx, 'what': what[:400]}
        res['violations'].append((rec, script, 'smt2'))
    cov['proofs_checked'] += 1
    try:
        leaves, corenames, nsteps = P.check(text)
    except P.ProofError as e:
        viol(e.rule, str(e)); return
    cov['resolution_steps'] += nsteps; cov['leaves'] += len(leaves)
    active, OUT = snap
    decls = chk_trace._merge_decls(fam.decls, tr)
    for name, cl in leaves.items():
        rest, guards = P.split_guards(cl)
        res['distinct'].append((fam.name, P.clause_text(cl)))
        if not rest and len(guards) == 1 and not next(iter(guards))[1]:
            fid = next(iter(guards))[0]
            if fid not in active: viol('leaf_activates_popped_level', 'leaf %s = (not .frame%d) but the active levels are %s' % (name, fid, active))
            continue
        bad = [fid for fid, pos in guards if fid not in active]
        if bad:
            viol('leaf_from_popped_level', 'leaf %s = %s carries the guard of level %s; active levels: %s' % (name, P.clause_text(cl), bad, active)); continue
        if any(not pos for fid, pos in guards):
            viol('leaf_guard_polarity', 'leaf %s = %s' % (name, P.clause_text(cl))); continue
        neg = ['(not %s)' % (t if pos else '(not %s)' % t) for pos, t in rest]
        cov['leaf_queries'] += 1
        if refs.find_model('ALL', decls, OUT + neg) is not None:
            viol('leaf_not_implied', 'leaf %s = %s is neither a theory lemma nor implied by the formulas of the active levels %s' % (name, P.clause_text(cl), OUT))


def set_task(t):
    famname, pool, n, optvecs, start, step = t
    fam = F.FAMILIES[famname]
    atoms = fam.atoms if pool == 'full' else fam.core
    extra = fam.extra if pool == 'full' else ()
    res = core.new_result(); cov = res['cov']
    w = S.worker()
    for assertions in itertools.islice(F.assertion_sets(atoms, n, extra), start, None, step):
        for opts in optvecs:
            script = S.build_script(fam, assertions, ('proofs',) + tuple(opts), models=False, tail='(echo "@@")(get-proof)')
            r = w.run(script, trace=True, timeout=5)
            cov['executions'] += 1
            if r.timeout or r.crash: cov['timeouts_or_crashes'] += 1; continue
            parts = r.out.split('@@\n')
            if S.blocks(parts[0])[:1] != ['unsat'] or len(parts) < 2: continue
            tr = T.Trace(r.trace); snaps = snapshots(tr)
            if not snaps: continue
            judge_proof(fam, opts, script, parts[1], snaps[-1], tr, res, 'single_query')
        if len(res['samples']) < 1 and 'script' in dir(): res['samples'].append({'script': script, 'stdout': r.out[:400]})
    return res


def hist_task(t):
    famname, k, L, opts, start, step = t
    fam = F.FAMILIES[famname]; pool = H.POOLS[famname][:k]
    res = core.new_result(); cov = res['cov']
    w = S.worker()
    for hist in H.enumerate_histories(k, L, with_query=True)[start::step]:
        if 'query' not in hist: continue
        script = H.render(fam, pool, hist, ('proofs',) + tuple(opts), '(get-proof)', models=False)
        r = w.run(script, trace=True, timeout=5)
        cov['executions'] += 1; cov['transitions'] += len(hist)
        if r.timeout or r.crash: cov['timeouts_or_crashes'] += 1; continue
        pieces = r.out.split('@@\n')
        tr = T.Trace(r.trace); snaps = snapshots(tr)
        ci = -1; last = None
        for pos, c in enumerate(hist):
            piece = pieces[pos + 1].strip() if pos + 1 < len(pieces) else ''
            if c == 'check':
                ci += 1; last = (pos, piece)
            elif c == 'query' and last and last[1] == 'unsat' and all(x == 'query' for x in hist[last[0] + 1:pos]) and 0 <= ci < len(snaps):
                if piece.startswith('(proof'):
                    popped_unsat = any(hist[j] == 'check' and pieces[j + 1].strip() == 'unsat' and 'pop' in hist[j:pos] for j in range(pos))
                    judge_proof(fam, opts, script, piece, snaps[ci], tr, res, 'history:unsat_frame_popped' if popped_unsat else 'history')
            res['states'].append((famname, pos))
        if len(res['samples']) < 1: res['samples'].append({'history': list(hist), 'stdout': r.out[:300]})
    return res


LEVEL_POOLS = {'PROP': [['(or p q r)', '(not p)', '(not q)', '(not r)'], ['(or p q)', '(or (not p) q)', '(or p (not q))', '(or (not p) (not q))']]}


def level_task(t):
    """every assignment of 4 assertions to {absent, level 0, level 1, level 2} (both orders inside a level): assert level 0,
    push, level 1, push, level 2, check-sat, get-proof, pop, check-sat, get-proof"""
    famname, pi, start, step = t
    fam = F.FAMILIES[famname]
    pool = LEVEL_POOLS[famname][pi] if famname in LEVEL_POOLS and pi < len(LEVEL_POOLS[famname]) else H.POOLS[famname][:4]
    res = core.new_result(); cov = res['cov']
    w = S.worker()
    jobs = [(pl, rev) for pl in itertools.product(range(4), repeat=len(pool)) for rev in (False, True) if any(pl)]
    for pl, rev in jobs[start::step]:
        lv = {k: [pool[i] for i in (reversed(range(len(pool))) if rev else range(len(pool))) if pl[i] == k] for k in (1, 2, 3)}
        body = ''.join('(assert %s)' % a for a in lv[1]) + '(push 1)' + ''.join('(assert %s)' % a for a in lv[2]) + '(push 1)' + ''.join('(assert %s)' % a for a in lv[3])
        script = '(set-option :produce-proofs true)(set-logic %s)%s%s(check-sat)(echo "@@")(get-proof)(echo "@@")(pop 1)(check-sat)(echo "@@")(get-proof)' % (fam.logic, fam.decls, body)
        r = w.run(script, trace=True, timeout=5)
        cov['executions'] += 1
        if r.timeout or r.crash: cov['timeouts_or_crashes'] += 1; continue
        parts = r.out.split('@@\n')
        tr = T.Trace(r.trace); snaps = snapshots(tr)
        if len(parts) >= 2 and S.blocks(parts[0])[-1:] == ['unsat'] and parts[1].strip().startswith('(proof') and snaps:
            judge_proof(fam, (), script, parts[1], snaps[0], tr, res, 'levels')
        if len(parts) >= 4 and S.blocks(parts[2])[-1:] == ['unsat'] and parts[3].strip().startswith('(proof') and len(snaps) > 1:
            judge_proof(fam, (), script, parts[3], snaps[1], tr, res, 'levels:unsat_frame_popped' if S.blocks(parts[0])[-1:] == ['unsat'] else 'levels')
        if len(res['samples']) < 1: res['samples'].append({'script': script, 'stdout': r.out[:300]})
    return res


def run(prop, tier):
    chk = core.Check('C10', tier, 'exploration',
                     'every unsat assertion set (size<=2 full pools, <=3 6-atom pools) of all 17 families and every history (length<=6, 3 assertions) with :produce-proofs and get-proof after every unsat answer; '
                     'an independent checker recomputes every resolution step (bound names, opposite-sign pivots, empty final clause, :core names leaves) and every leaf must be the activation of an active level, '
                     'or (with only guards of active levels) have no certified counter-model together with the formulas handed to the CNF encoder for the active levels; distinct = distinct (family, leaf clause)')
    chk.assumptions = ['vlib/proofcheck.py; reference layer as in C01 for the leaves; the premise of a leaf is the preprocessed formula of the active frames (hook trace), whose equivalence with the assertions is C13']
    runner.build('rel'); runner.harness('rel', 'osmt_worker')
    fams = list(F.FAMILIES.keys())
    coref = F.LOGICS_CORE + ['PROP']
    chk.run_stage('n<=2, full pools, default + SatELite/lookahead', [(f, 'full', 2, [(), ('noincr',), ('picky',)], s, 4) for f in fams for s in range(4)], set_task)
    chk.run_stage('n<=3, 6-atom pools', [(f, 'core', 3, [()], s, 8) for f in coref for s in range(8)], set_task)
    chk.run_stage('histories L<=6 (3 assertions)', [(f, 3, 6, (), s, 4) for f in H.HIST_LOGICS_QUICK for s in range(4)], hist_task)
    ltasks = [('PROP', 0, s, 2) for s in range(2)] + [('PROP', 1, s, 2) for s in range(2)] + [(f, 9, s, 2) for f in H.HIST_LOGICS_QUICK if f != 'PROP' for s in range(2)]
    chk.run_stage('level placements: 4 assertions x {absent, level 0, 1, 2} x 2 orders; proof at depth 2 and after one pop', ltasks, level_task)
    chk.run_stage('histories L<=7 (2 assertions)',[(f, 2, 7, (), s, 4) for f in H.HIST_LOGICS_QUICK for s in range(4)], hist_task)
    if tier == 'thorough':
        chk.run_stage('n<=3, full pools',[(f, 'full', 3, [()], s, 64) for f in fams for s in range(64)], set_task)
        chk.run_stage('histories L<=7 (3 assertions)', [(f, 3, 7, (), s, 16) for f in H.HIST_LOGICS_ALL for s in range(16)], hist_task)
    chk.extra['oracle'] = dict(refs.stats)
    return chk.finish()
