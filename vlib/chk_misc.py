"""C29 (input outside the declared logic is rejected or answered correctly) and
C30 (check-sat always returns outside integer arithmetic)."""
import itertools
from . import core, runner, refs, smtlib, families as F, scriptmc as S, histories as H


# ---------------------------------------------------------------- C29
def lin_atoms(sort):
    """all atoms a*x + b*y + d*z REL c with a,b,d in -2..2 (not all 0), as SMT-LIB text"""
    out = []
    consts = ['0', '1', '(- 3)'] if sort == 'Int' else ['0', '1', '(- (/ 3 2))']
    for a, b, d in itertools.product(range(-2, 3), repeat=3):
        if a == b == d == 0: continue
        terms = []
        for co, v in ((a, 'x'), (b, 'y'), (d, 'z')):
            if co == 0: continue
            if co == 1: terms.append(v)
            elif co == -1: terms.append('(- %s)' % v)
            else: terms.append('(* %s %s)' % (F.num(co), v))
        lhs = terms[0] if len(terms) == 1 else '(+ %s)' % ' '.join(terms)
        shape = 'dl' if sorted(x for x in (a, b, d) if x) in ([-1, 1], [1], [-1]) else 'non_dl'
        for rel in ('<=', '<', '=', '>=', '>'):
            for c in consts:
                out.append(('(%s %s %s)' % (rel, lhs, c), shape))
    return out


OUTSIDE = {   # logic family -> [(assertion text, class)] well-sorted SMT-LIB outside the fragment
    'QF_LRA': [('(= (* x y) 1)', 'nonlinear'), ('(> (* x x) 2)', 'nonlinear'), ('(= (* x (+ y 1)) z)', 'nonlinear'), ('(< (/ x y) 1)', 'nonlinear'), ('(= (/ 1 x) y)', 'nonlinear'),
               ('(= (* x y) (* y x))', 'nonlinear'), ('(> (/ x 0) 1)', 'div0'), ('(= (* 2 3 x) 6)', 'linear_product')],
    'QF_LIA': [('(= (* x y) 1)', 'nonlinear'), ('(> (* x x) 2)', 'nonlinear'), ('(= (div x y) 1)', 'nonlinear'), ('(= (mod x y) 1)', 'nonlinear'), ('(= (div x 0) 1)', 'div0'), ('(= (mod x 0) y)', 'div0'),
               ('(= (* x (+ y 1)) z)', 'nonlinear'), ('(= (* 2 3 x) 6)', 'linear_product'), ('(= (div (* 2 x) 2) y)', 'linear_div')],
}


FACTORS = ['x', 'y', '2', '(- 1)', '(- x)', '(- y)', '(+ x 1)', '(+ y 2)']
VALUES = [('2', '5'), ('(- 3)', '2')]


def product_jobs(sort):
    """every product of 2 and 3 factors (and the n-ary left-associative forms of - / div mod) equated with a constant, with x and y
    pinned by equalities asserted before or after it (variable terms are created on first use, which changes term order)"""
    prods = ['(* %s)' % ' '.join(fs) for k in (2, 3) for fs in itertools.product(FACTORS, repeat=k)]
    prods += ['(- x y 1)', '(- x 1 y)', '(+ x (* 2 y) (* 3 x))']
    prods += (['(div x 2 3)', '(div x 2 y)', '(mod x 5 3)', '(div (* 4 x) 2 2)'] if sort == 'Int' else ['(/ x 2 4)', '(/ x 2 y)', '(/ (* 4 x) 2 2)'])
    jobs = []
    for p in prods:
        nvar = sum(1 for tok in p.replace('(', ' ').replace(')', ' ').split() if tok in ('x', 'y'))
        cls = 'nonlinear' if nvar >= 2 and p.startswith('(*') else 'division' if ('div' in p or 'mod' in p or '/' in p) else 'linear_product'
        for c in ('4', '(- 6)', '10'):
            for vx, vy in VALUES:
                pins = ['(= x %s)' % vx, '(= y %s)' % vy]
                jobs.append((['(= %s %s)' % (p, c)] + pins, cls))
                jobs.append((pins + ['(= %s %s)' % (p, c)], cls))
                jobs.append(([pins[0], '(= %s %s)' % (p, c), '(> y 0)'], cls))        # only x pinned
                jobs.append((['(= %s %s)' % (p, c), pins[1], '(< x 100)'], cls))     # only y pinned
    return jobs


def c29_prod_task(t):
    famname, start, step = t
    fam = F.FAMILIES[famname]
    res = core.new_result(); cov = res['cov']
    w = S.worker()
    sort = 'Int' if famname == 'QF_LIA' else 'Real'
    nl = 'QF_NIA' if sort == 'Int' else 'QF_NRA'
    for asserts, cls in product_jobs(sort)[start::step]:
        script = '(set-logic %s)%s%s(check-sat)' % (fam.logic, fam.decls, ''.join('(assert %s)(echo "@@")' % x for x in asserts))
        r = w.run(script, timeout=3)
        cov['executions'] += 1
        if r.timeout: cov['timeouts'] += 1; continue
        if r.crash: cov['crashes_left_to_C18'] += 1; continue
        pieces = r.out.split('@@\n')
        if any('(error' in p_ for p_ in pieces[:-1]):
            cov['rejected'] += 1; res['distinct'].append((famname, tuple(asserts), 'rejected')); continue
        ans = S.blocks(pieces[-1])[:1]
        if not ans or ans[0] not in ('sat', 'unsat'):
            cov['unknown_or_error_at_check'] += 1; continue
        cov['answered_' + cls] += 1
        res['distinct'].append((famname, tuple(asserts), ans[0]))
        if ans[0] == 'unsat': bad = refs.find_model(nl, fam.decls, asserts) is not None
        else: bad = refs.is_unsat(nl, fam.decls, asserts)
        if bad:
            if S.confirm(script, (), lambda x: S.blocks(x.out.split('@@\n')[-1])[:1] == ans, cls=('c29p', famname, cls, ans[0])):
                prod = next(a for a in asserts if not a.startswith('(= x ') and not a.startswith('(= y '))
                rec = {'logic': fam.logic, 'family': famname, 'options': [], 'symptom': 'out_of_logic_wrong_' + ans[0], 'input_class': cls,
                       'site': 'nary_' + prod.split()[1].lstrip('(') if cls != 'nonlinear' else 'product',
                       'what': '%s accepted without error under %s and answered %s with %s; the reference says the opposite' % (prod, fam.logic, ans[0], [a for a in asserts if a != prod])}
                res['violations'].append((rec, script, 'smt2'))
            else:
                cov['unconfirmed_in_fresh_process'] += 1
        if len(res['samples']) < 1: res['samples'].append({'script': script, 'stdout': r.out})
    return res


def c29_task(t):
    kind, famname, start, step = t
    fam = F.FAMILIES[famname]
    res = core.new_result(); cov = res['cov']
    w = S.worker()
    sort = 'Int' if famname in ('QF_IDL', 'QF_UFIDL', 'QF_LIA') else 'Real'
    wide = {'QF_IDL': 'QF_LIA', 'QF_UFIDL': 'QF_UFLIA', 'QF_RDL': 'QF_LRA', 'QF_UFRDL': 'QF_UFLRA'}.get(famname, famname)
    if kind == 'dl':
        items = lin_atoms(sort)
    else:
        items = OUTSIDE[famname]
    partners = [None] + F.lits(fam.core[:3] if kind == 'dl' else fam.core)
    jobs = [(a, cls, p) for (a, cls) in items for p in partners]
    for a, cls, p in jobs[start::step]:
        asserts = [a] + ([p] if p else [])
        script = '(set-logic %s)%s%s(check-sat)' % (fam.logic, fam.decls, ''.join('(assert %s)(echo "@@")' % x for x in asserts))
        r = w.run(script, timeout=3)
        cov['executions'] += 1
        if r.timeout: cov['timeouts'] += 1; continue
        if r.crash: cov['crashes_left_to_C18'] += 1; continue
        pieces = r.out.split('@@\n')
        if any('(error' in p_ for p_ in pieces[:-1]):
            cov['rejected'] += 1; res['distinct'].append((famname, a, 'rejected')); continue
        ans = S.blocks(pieces[-1])[:1]
        if not ans or ans[0] not in ('sat', 'unsat'):
            cov['unknown_or_error_at_check'] += 1; continue
        cov['answered_' + cls] += 1
        res['distinct'].append((famname, a, p))
        if kind != 'dl' and cls in ('nonlinear', 'div0'):
            # reference solvers need nonlinear arithmetic here: decide with z3 only when it certifies a model, refutations by both
            pass
        if ans[0] == 'unsat':
            m = refs.find_model(wide, fam.decls, asserts)
            bad = m is not None
        else:
            bad = refs.is_unsat(wide if cls not in ('nonlinear', 'div0') else 'QF_NIA' if sort == 'Int' else 'QF_NRA', fam.decls, asserts)
        if bad:
            if S.confirm(script, (), lambda x: S.blocks(x.out.split('@@\n')[-1])[:1] == ans):
                rec = {'logic': fam.logic, 'family': famname, 'options': [], 'symptom': 'out_of_logic_wrong_' + ans[0], 'input_class': cls,
                       'what': '%s accepted without error under %s and answered %s; the reference (logic %s) says the opposite' % (a, fam.logic, ans[0], wide)}
                res['violations'].append((rec, script, 'smt2'))
            else:
                cov['unconfirmed_in_fresh_process'] += 1
        if len(res['samples']) < 1: res['samples'].append({'script': script, 'stdout': r.out})
    return res


def run_c29(tier):
    chk = core.Check('C29', tier, 'exploration',
                     'under QF_IDL/QF_RDL/QF_UFIDL/QF_UFRDL every atom a*x+b*y+d*z REL c (a,b,d in -2..2, REL in <=,<,=,>=,>, 3 constants: 1860 atoms, 1500 of them not difference constraints) alone and paired with every literal of the 6-atom pool; '
                     'under QF_LRA/QF_LIA products, divisions by variables and by zero; oracle: an error response for the assert, or the answer agrees with z3 (certified model) / z3+cvc5 in the widest logic; distinct = (family, atom, partner)')
    chk.assumptions = ['z3 5.1 / cvc5 1.4 reference as in C01/C02; crashes are left to C18']
    runner.build('rel'); runner.harness('rel', 'osmt_worker')
    n = 16
    tasks = [('dl', f, s, n) for f in ('QF_IDL', 'QF_RDL', 'QF_UFIDL', 'QF_UFRDL') for s in range(n)]
    chk.run_stage('linear atoms outside difference logic x partner literals', tasks, c29_task)
    tasks = [('out', f, s, 2) for f in ('QF_LRA', 'QF_LIA') for s in range(2)]
    chk.run_stage('non-linear / division terms under linear logics', tasks, c29_task)
    chk.run_stage('every product of 2 and 3 factors over 8 factors (and n-ary - / div mod) = constant, x and y pinned before or after it', [(f, s, 16) for f in ('QF_LRA', 'QF_LIA') for s in range(16)], c29_prod_task)
    chk.extra['oracle'] = dict(refs.stats)
    return chk.finish()


# ---------------------------------------------------------------- C30
C30_FAMS = ['PROP', 'QF_UF', 'QF_LRA', 'QF_RDL', 'QF_AX', 'QF_UFLRA', 'QF_UFRDL', 'QF_ALRA', 'QF_AUFLRA']
C30_COORDS = ['lookahead', 'picky', 'ghost', 'noincr', 'proofs', 'cores', 'itp', 'nosubst', 'seed7', 'restart1', 'noluby', 'ccmin0']


def c30_task(t):
    kind, famname, arg, optvecs, start, step = t
    fam = F.FAMILIES[famname]
    res = core.new_result(); cov = res['cov']
    w = S.worker()
    if kind == 'sets':
        pool, n = arg
        atoms = fam.atoms if pool == 'full' else fam.core
        items = [('set', a) for a in itertools.islice(F.assertion_sets(atoms, n, fam.extra if pool == 'full' else ()), start, None, step)]
    else:
        pool = H.POOLS[famname][:4]
        items = [('hist', h) for h in H.enumerate_histories(4, arg, with_query=False)[start::step]]
    seen_hang_classes = {}
    for what, it in items:
        for opts in optvecs:
            if what == 'hist' and 'lookahead' in opts and 'push' in it:
                if ('known',) not in seen_hang_classes:
                    seen_hang_classes[('known',)] = 1
                    # one representative of the known divergence is still executed so that the finding stays observable
                else:
                    cov['skipped_known_divergence'] += 1; continue
            if what == 'set':
                script = S.build_script(fam, it, opts, models=False)
            else:
                script = H.render(fam, pool, it, opts, '', models=False)
            r = w.run(script, timeout=1.0)
            cov['executions'] += 1
            res['distinct'].append((famname, opts, what))
            if not r.timeout:
                continue
            cov['screen_timeouts'] += 1
            cls = (famname, opts, what, 'push' in it if what == 'hist' else False)
            if seen_hang_classes.get(cls, 0) >= 2:
                cov['timeouts_same_class_not_reconfirmed'] += 1; continue
            seen_hang_classes[cls] = seen_hang_classes.get(cls, 0) + 1
            r2 = runner.fresh_run(script, timeout=30)
            if r2.timeout:
                rec = {'logic': fam.logic, 'family': famname, 'options': sorted(opts), 'engine': S.engine_of(opts), 'symptom': 'divergence', 'input_class': 'history_with_push' if (what == 'hist' and 'push' in it) else ('history' if what == 'hist' else 'single_query'),
                       'what': 'check-sat did not return within 30 s in a fresh process (typical run time: 0.1 ms)'}
                res['violations'].append((rec, script, 'smt2'))
            else:
                cov['slow_but_returned'] += 1
        if len(res['samples']) < 1: res['samples'].append({'script': script[:300]})
    return res


def dl_atoms():
    """difference constraints over x, y, z with small bounds, equalities included: triples of them close cycles of every weight sign, incl. weight 0"""
    out = []
    for a, b in (('x', 'y'), ('y', 'z'), ('z', 'x'), ('y', 'x'), ('z', 'y'), ('x', 'z')):
        for rel in ('=', '<=', '<'):
            for c in ('(- 1)', '0', '1'):
                if rel == '=' and (a, b) in (('y', 'x'), ('z', 'y'), ('x', 'z')): continue
                out.append('(%s (- %s %s) %s)' % (rel, a, b, c))
    return out


def c30_dl_task(t):
    """every set of 3 difference constraints, flat under the tracking options, and split as 2 in the base frame + 1..2 inside a push"""
    famname, mode, start, step = t
    fam = F.FAMILIES[famname]
    res = core.new_result(); cov = res['cov']
    w = S.worker()
    atoms = dl_atoms()
    head = '(set-logic %s)(declare-fun x () %s)(declare-fun y () %s)(declare-fun z () %s)' % (fam.logic, *(['Real' if 'RDL' in famname else 'Int'] * 3))
    hangs = {}
    small = [a for a in atoms if not a.endswith(' 1)')]      # bounds -1 and 0 only, for the four-atom shapes
    pairs = list(itertools.combinations(range(len(small)), 2))
    if mode == 'flat':
        jobs = [(o, c) for c in itertools.combinations(range(len(atoms)), 3) for o in ('cores', 'proofs', 'itp', 'ghost')]
    elif mode == 'push':
        jobs = [('', c) for c in itertools.permutations(range(len(atoms)), 3) if c[0] < c[1]]
    elif mode == 'flat_or':      # two units and a disjunction: the literals of the disjunction are decided above level 0
        jobs = [(o, p + q) for p in pairs for q in pairs for o in ('cores', 'proofs')]
    else:                        # 'push2': two constraints in the base frame, two inside the push
        jobs = [('', p + q) for p in pairs for q in pairs]
    for o, c in jobs[start::step]:
        A = [(atoms if mode in ('flat', 'push') else small)[i] for i in c]
        if mode == 'flat':
            script = S.opt_text((o,)) + head + ''.join('(assert %s)' % a for a in A) + '(check-sat)'
        elif mode == 'push':
            script = head + '(assert %s)(assert %s)(check-sat)(push 1)(assert %s)(check-sat)(pop 1)(check-sat)' % tuple(A)
        elif mode == 'flat_or':
            script = S.opt_text((o,)) + head + '(assert %s)(assert %s)(assert (or %s %s))(check-sat)' % tuple(A)
        else:
            script = head + '(assert %s)(assert %s)(check-sat)(push 1)(assert %s)(assert %s)(check-sat)(pop 1)(check-sat)' % tuple(A)
        r = w.run(script, timeout=1.0)
        cov['executions'] += 1
        res['distinct'].append((famname, mode, o, c))
        if not r.timeout: continue
        cov['screen_timeouts'] += 1
        cls = (famname, mode, o)
        if hangs.get(cls, 0) >= 2: cov['timeouts_same_class_not_reconfirmed'] += 1; continue
        hangs[cls] = hangs.get(cls, 0) + 1
        r2 = runner.fresh_run(script, timeout=30)
        if r2.timeout:
            rec = {'logic': fam.logic, 'family': famname, 'options': [o] if o else [], 'engine': S.engine_of((o,)), 'symptom': 'divergence', 'input_class': 'difference_cycle_' + mode,
                   'what': 'check-sat did not return within 30 s in a fresh process on three difference constraints %s' % A}
            res['violations'].append((rec, script, 'smt2'))
        else:
            cov['slow_but_returned'] += 1
    return res


def run_c30(tier):
    chk = core.Check('C30', tier, 'exploration',
                     'every assertion set (size<=2) and every history (length<=5, 4-assertion micro-pool) of the 9 non-integer families x every option vector within deviation 2 over 12 coordinates (engines, incremental, tracking, restarts, seed, minimisation); '
                     'a run that exceeds 1 s (10^4 x typical) is re-run alone in a fresh process with 30 s before it is called a divergence; distinct = (family, option vector, kind)')
    chk.assumptions = ['instances are tiny (<= 4 short assertions): z3 and cvc5 decide each in milliseconds', 'pure-lookahead histories containing push are represented by one run per task (known divergence)']
    runner.build('rel'); runner.harness('rel', 'osmt_worker')
    d1 = S.opt_vectors(1, C30_COORDS)
    d2 = S.opt_vectors(2, C30_COORDS)
    n = 8
    hf = [f for f in C30_FAMS if f in H.POOLS]
    chk.run_stage('sets n<=2, full pools, deviation 1', [('sets', f, ('full', 2), d1, s, n) for f in C30_FAMS for s in range(n)], c30_task)
    chk.run_stage('sets n<=2, 6-atom pools, deviation 2 (%d vectors)' % len(d2), [('sets', f, ('core', 2), d2[len(d1):], s, n) for f in C30_FAMS for s in range(n)], c30_task)
    chk.run_stage('histories L<=5, deviation 1', [('hist', f, 5, d1, s, n) for f in hf for s in range(n)], c30_task)
    chk.run_stage('difference logic: every triple of %d difference constraints (bounds -1..1, equalities), flat under cores/proofs/interpolants/ghost-vars and as base frame + push' % len(dl_atoms()),
                  [(f, m, s, 16) for f in ('QF_RDL',) for m in ('flat', 'push') for s in range(16)], c30_dl_task)
    chk.run_stage('difference logic: two constraints + a disjunction of two (cores/proofs), and two in the base frame + two inside a push, over the 30 constraints with bounds -1, 0',
                  [('QF_RDL', m, s, 32) for m in ('flat_or', 'push2') for s in range(32)], c30_dl_task)
    if tier == 'thorough':
        chk.run_stage('histories L<=5, deviation 2', [('hist', f, 5, d2[len(d1):], s, 32) for f in hf for s in range(32)], c30_task)
        chk.run_stage('sets n<=3, 6-atom pools, deviation 1', [('sets', f, ('core', 3), d1, s, 32) for f in C30_FAMS for s in range(32)], c30_task)
    return chk.finish()


def run(prop, tier):
    return run_c29(tier) if prop == 'C29' else run_c30(tier)
