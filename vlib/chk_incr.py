"""C04: incremental answers equal fresh answers.  Explicit enumeration of ALL histories over
{push, pop, assert p_i, check-sat, query} up to a length bound; differential oracle: a fresh solver with
the same options given exactly the assertions on the reference stack, in stack order."""
import itertools
from . import core, runner, smtlib, refs, families as F, scriptmc as S, histories as H

CONFIGS_QUICK = [(), ('proofs',), ('cores',), ('itp',), ('nomodels',), ('lookahead',), ('picky',), ('ghost',)]


def _query(opts, fam, names_active):
    if 'itp' in opts:
        if len(names_active) >= 2:
            return '(get-interpolants %s (and %s))' % (names_active[0], ' '.join(names_active[1:])) if len(names_active) > 2 else '(get-interpolants %s %s)' % tuple(names_active)
        return '(get-info :name)'
    if 'cores' in opts: return '(get-unsat-core)'
    if 'proofs' in opts: return '(get-proof)'
    if fam.models and 'nomodels' not in opts: return '(get-model)(get-value (%s))' % ' '.join(fam.terms[:2])
    return '(get-info :name)'


def render(fam, pool, hist, opts):
    named = any(o in opts for o in ('itp', 'cores'))
    s = []
    if fam.models and 'nomodels' not in opts: s.append('(set-option :produce-models true)')
    s.append(S.opt_text(opts))
    s.append('(set-logic %s)' % fam.logic); s.append(fam.decls); s.append(H.MARK)
    frames = [[]]; cnt = 0
    for c in hist:
        if c == 'push': s.append('(push 1)'); frames.append([])
        elif c == 'pop': s.append('(pop 1)'); frames.pop()
        elif c == 'check': s.append('(check-sat)')
        elif c == 'query': s.append(_query(opts, fam, [n for fr in frames for n in fr]))
        else:
            i = int(c[1:])
            if named:
                nm = 'h%d_%d' % (i, cnt); cnt += 1
                s.append('(assert (! %s :named %s))' % (pool[i], nm)); frames[-1].append(nm)
            else:
                s.append('(assert %s)' % pool[i])
        s.append(H.MARK)
    return '\n'.join(s)


_fresh = {}


def fresh_answer(w, fam, pool, opts, active):
    key = (fam.name, opts, tuple(active))
    if key in _fresh: return _fresh[key]
    named = any(o in opts for o in ('itp', 'cores'))
    s = []
    if fam.models and 'nomodels' not in opts: s.append('(set-option :produce-models true)')
    s.append(S.opt_text(opts)); s.append('(set-logic %s)' % fam.logic); s.append(fam.decls)
    for j, i in enumerate(active):
        s.append('(assert (! %s :named f%d))' % (pool[i], j) if named else '(assert %s)' % pool[i])
    s.append('(check-sat)')
    r = w.run(''.join(s), timeout=5)
    if r.timeout or r.crash: a = None
    else:
        b = S.blocks(r.out); a = b[0] if b else None
    _fresh[key] = a
    return a


def task(t):
    famname, k, L, opts, with_query, start, step = t
    fam = F.FAMILIES[famname]; pool = H.POOLS[famname][:k]
    res = core.new_result(); cov = res['cov']
    w = S.worker()
    hs = H.enumerate_histories(k, L, with_query=with_query)
    for hist in hs[start::step]:
        if 'lookahead' in opts and 'push' in hist:
            # known divergence (C30 finding pure-lookahead-after-push): every such run would only burn its time limit
            cov['skipped_known_divergence'] += 1; continue
        script = render(fam, pool, hist, opts)
        r = w.run(script, timeout=2)
        cov['executions'] += 1; cov['transitions'] += len(hist)
        if r.timeout:
            cov['timeouts'] += 1; continue
        if r.crash:
            cov['crashes'] += 1; continue
        pieces = H.split_marked(r.out)
        ref = H.RefStack()
        for pos, c in enumerate(hist):
            ref.apply(c)
            res['states'].append((famname, ref.state()))
            if c != 'check': continue
            piece = pieces[pos + 1].strip() if pos + 1 < len(pieces) else None
            if piece is None: continue
            piece = piece.split('\n')[0]
            active = ref.active()
            want = fresh_answer(w, fam, pool, opts, active)
            cov['checks'] += 1
            if want is None or want not in ('sat', 'unsat', 'unknown') or piece not in ('sat', 'unsat', 'unknown'):
                cov['checks_skipped'] += 1; continue
            res['distinct'].append((famname, opts, tuple(active), piece))
            if piece != want:
                def pred(x, pos=pos, piece=piece):
                    ps = H.split_marked(x.out)
                    return pos + 1 < len(ps) and ps[pos + 1].strip().split('\n')[0] == piece
                fs = ''.join(['(set-option :produce-models true)' if fam.models and 'nomodels' not in opts else '', S.opt_text(opts), '(set-logic %s)' % fam.logic, fam.decls] + ['(assert %s)' % pool[i] for i in active] + ['(check-sat)'])
                if S.confirm(script, (), pred, cls=('c04', famname, opts, piece, want)) and S.confirm(fs, (), lambda x: S.blocks(x.out)[:1] == [want], cls=('c04f', famname, opts, want)):
                    sym = 'incremental_%s_fresh_%s' % (piece, want)
                    rec = {'logic': fam.logic, 'family': fam.name, 'options': sorted(opts), 'engine': S.engine_of(opts), 'symptom': sym, 'input_class': 'history',
                           'history_shape': ','.join(x if not x.startswith('a') else 'assert' for x in hist[:pos + 1]),
                           'what': 'check-sat #%d of the history answers %s, a fresh solver on the same stack %s' % (pos, piece, want)}
                    res['violations'].append((rec, script + '\n; fresh: ' + fs, 'smt2'))
                else:
                    cov['unconfirmed_in_fresh_process'] += 1
                break
        if len(res['samples']) < 1: res['samples'].append({'history': list(hist), 'options': list(opts), 'stdout': r.out[:200]})
    return res


def run(prop, tier):
    chk = core.Check('C04', tier, 'model_checking',
                     'explicit enumeration of all command histories over {push 1, pop 1, assert p_i, check-sat, query} up to the length bound per (logic micro-pool, configuration); '
                     'states = distinct reference assertion stacks reached, transitions = commands executed, every check-sat compared with a fresh solver on the reference stack; '
                     'distinct = distinct (family, configuration, stack, answer)')
    chk.assumptions = ['the Python reference stack (vlib/histories.RefStack) is the SMT-LIB push/pop semantics', 'fresh answers come from the same build with the same options (differential oracle, no external solver)']
    runner.build('rel'); runner.harness('rel', 'osmt_worker')
    fams = H.HIST_LOGICS_QUICK if tier == 'quick' else H.HIST_LOGICS_ALL
    def tasks(k, L, cfgs, wq, split):
        return [(f, k, L, o, wq, s, split) for f in fams for o in cfgs for s in range(split)]
    chk.run_stage('L<=5, 4 assertions + query, %d configurations' % len(CONFIGS_QUICK), tasks(4, 5, CONFIGS_QUICK, True, 2), task)
    chk.run_stage('L<=7, 3 assertions, default/interpolants', tasks(3, 7, [(), ('itp',)], False, 8), task)
    chk.run_stage('L<=8, 2 assertions, default/proofs', tasks(2, 8, [(), ('proofs',)], False, 8), task)
    if tier == 'thorough':
        chk.run_stage('L<=7, 3 assertions, proofs', tasks(3, 7, [('proofs',)], False, 8), task)
        chk.run_stage('L<=8, 2 assertions, cores/interpolants', tasks(2, 8, [('cores',), ('itp',)], False, 8), task)
        chk.run_stage('L<=6, 4 assertions + query, all configurations', tasks(4, 6, CONFIGS_QUICK, True, 16), task)
        chk.run_stage('L<=7, 3 assertions, engines and cores', tasks(3, 7, [('cores',), ('lookahead',), ('picky',), ('ghost',), ('nomodels',)], False, 8), task)
        chk.run_stage('L<=9, 2 assertions, default/proofs/itp', tasks(2, 9, [(), ('proofs',), ('itp',)], False, 32), task)
        chk.run_stage('L<=7, 4 assertions, default', tasks(4, 7, [()], False, 64), task)
    return chk.finish()
