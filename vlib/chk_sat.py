"""C01 (unsat only for unsatisfiable sets), C02 (sat only for satisfiable sets), C03 (models satisfy the
assertions): exhaustive enumeration of every assertion set of the families up to a size bound, under
every option vector within a deviation bound, single-query and (histories) incremental."""
import itertools, collections
from . import core, runner, smtlib, evalsmt, refs, families as F, scriptmc as S, histories as H


def _judge(prop, fam, assertions, opts, script, r, res, named=None):
    """apply the monitor of `prop` to one finished single-query run"""
    cov = res['cov']
    cov['executions'] += 1
    if r.timeout:
        cov['timeouts'] += 1; return
    if r.crash:
        cov['crashes'] += 1; return
    b = S.blocks(r.out)
    if not b:
        cov['no_output'] += 1; return
    ans = b[0]
    cov['ans_' + ans if ans in ('sat', 'unsat', 'unknown') else 'ans_other'] += 1
    akey = (fam.name, tuple(sorted(set(assertions))))
    if prop == 'C01':
        if ans != 'unsat': return
        res['distinct'].append(akey)
        m = refs.find_model(fam.logic, fam.decls, assertions, fam.defs)
        cov['oracle_queries'] += 1
        if m is None: return
        # certified model of an assertion set answered unsat
        if S.confirm(script, (), lambda x: S.blocks(x.out)[:1] == ['unsat'], cls=('wrong_unsat', fam.name, tuple(opts))):
            rec = dict(S.features(fam, opts, assertions), symptom='wrong_unsat', what='unsat answered for a set with a certified model')
            res['violations'].append((rec, script, 'smt2'))
        else:
            cov['unconfirmed_in_fresh_process'] += 1
    elif prop in ('C02', 'C03'):
        if ans != 'sat': return
        reason, m = (None, None)
        has_model = fam.models and len(b) > 1 and not S.is_error(b[1])
        if has_model:
            reason, m = S.check_model(fam, assertions, b[1])
            if reason is None:
                cov['models_certified'] += 1
                res['distinct'].append(akey)
                if prop == 'C03':
                    _judge_values(fam, assertions, opts, script, b, m, res, named)
                return
        if prop == 'C03':
            if not fam.models: return
            res['distinct'].append(akey)
            if not has_model: reason = 'no model printed after sat: %s' % (b[1] if len(b) > 1 else '(nothing)')
            if S.confirm(script, (), lambda x: _c03_bad(fam, assertions, x), cls=('bad_model', fam.name, tuple(opts))):
                rec = dict(S.features(fam, opts, assertions), symptom='bad_model', what=reason[:200])
                res['violations'].append((rec, script, 'smt2'))
            else:
                cov['unconfirmed_in_fresh_process'] += 1
            return
        # C02: sat without certificate -> need UNSAT* to alarm
        res['distinct'].append(akey)
        cov['oracle_queries'] += 1
        if refs.is_unsat(fam.logic, fam.decls, assertions, fam.defs):
            if S.confirm(script, (), lambda x: S.blocks(x.out)[:1] == ['sat'], cls=('wrong_sat', fam.name, tuple(opts))):
                rec = dict(S.features(fam, opts, assertions), symptom='wrong_sat', what='sat answered for a set that z3 and cvc5 refute' + ('; own model: ' + reason[:120] if reason else ''))
                res['violations'].append((rec, script, 'smt2'))
            else:
                cov['unconfirmed_in_fresh_process'] += 1
        else:
            cov['sat_uncertified_undecided'] += 1


def _c03_bad(fam, assertions, x):
    b = S.blocks(x.out)
    if b[:1] != ['sat']: return False
    if len(b) < 2 or S.is_error(b[1]): return True
    return S.check_model(fam, assertions, b[1])[0] is not None


def _judge_values(fam, assertions, opts, script, b, m, res, named=None):
    """get-value / get-assignment answers (blocks after the model) against the model"""
    cov = res['cov']
    funs = dict(m.funs); refs._add_defs(fam.defs, funs)
    for idx, blk in enumerate(b[2:4]):
        if S.is_error(blk):
            cov['query_errors'] += 1
            continue
        try:
            sx = smtlib.parse_one(blk)
        except smtlib.ParseError:
            rec = dict(S.features(fam, opts, assertions), symptom='bad_value', what='answer does not parse: %s' % blk[:100])
            res['violations'].append((rec, script, 'smt2')); continue
        for pair in sx:
            if not (isinstance(pair, list) and len(pair) == 2): continue
            t, v = pair
            if idx == 1:
                # get-assignment entry: (name value)
                if named is None or t not in named: continue
                cov['assignments_checked'] += 1
                try:
                    want = evalsmt.ev(smtlib.parse_one(named[t]), {}, funs)
                except (evalsmt.EvalError, RecursionError):
                    continue
                if v not in ('true', 'false'):
                    cov['assignment_unknown'] += 1
                    rec = dict(S.features(fam, opts, assertions), symptom='bad_assignment', site='unknown_value',
                               what='get-assignment reports %s for %s = %s (model value %s)' % (v, t, named[t], want))
                    res['violations'].append((rec, script, 'smt2'))
                elif (v == 'true') != want:
                    rec = dict(S.features(fam, opts, assertions), symptom='bad_assignment', site='wrong_value',
                               what='get-assignment reports %s for %s = %s but the model gives %s' % (v, t, named[t], want))
                    res['violations'].append((rec, script, 'smt2'))
                continue
            try:
                want = evalsmt.ev(t, {}, funs)
                got = evalsmt.ev(v, {}, funs)
            except (evalsmt.EvalError, RecursionError) as e:
                rec = dict(S.features(fam, opts, assertions), symptom='bad_value', what='cannot evaluate %s -> %s: %s' % (smtlib.show(t), smtlib.show(v), e))
                res['violations'].append((rec, script, 'smt2')); continue
            cov['values_checked'] += 1
            if not evalsmt.veq(want, got):
                rec = dict(S.features(fam, opts, assertions), symptom='bad_value', what='get-value %s = %s but the model gives %r' % (smtlib.show(t), smtlib.show(v), want))
                res['violations'].append((rec, script, 'smt2'))


import re
_PH = re.compile(r'\(not <(\d+)>\)|<(\d+)>')


def name_literals(ph_assertions, atoms):
    """ph_assertions are over placeholder atoms <i>; returns (plain assertions, named assertions, names)"""
    plain, namedv, names = [], [], {}
    cnt = [0]
    for j, a in enumerate(ph_assertions):
        def plain_sub(mo):
            if mo.group(1) is not None: return '(not %s)' % atoms[int(mo.group(1))]
            return atoms[int(mo.group(2))]
        def named_sub(mo):
            lit = plain_sub(mo)
            nm = 'n_%d' % cnt[0]; cnt[0] += 1
            names[nm] = lit
            return '(! %s :named %s)' % (lit, nm)
        pl = _PH.sub(plain_sub, a)
        plain.append(pl)
        nm = 't_%d' % j
        names[nm] = pl
        namedv.append('(! %s :named %s)' % (_PH.sub(named_sub, a), nm))
    return plain, namedv, names


def task_single(task):
    prop, famname, pool, n, start, step, optvecs = task
    fam = F.FAMILIES[famname]
    atoms = fam.atoms if pool == 'full' else fam.core
    extra = fam.extra if pool == 'full' else ()
    res = core.new_result()
    w = S.worker()
    tail = ''
    if fam.models:
        tail = '(get-model)'
        if prop == 'C03':
            tail += '(get-value (%s))(get-assignment)' % ' '.join(fam.terms + atoms)
    if prop == 'C03':
        ph = ['<%d>' % i for i in range(len(atoms))]
        gen = itertools.islice(F.assertion_sets(ph, n, ()), start, None, step)
    else:
        gen = itertools.islice(F.assertion_sets(atoms, n, extra), start, None, step)
    for assertions in gen:
        named = None; sent = assertions
        if prop == 'C03':
            assertions, sent, named = name_literals(assertions, atoms)
        for opts in optvecs:
            o = tuple(opts) + (('assign',) if prop == 'C03' else ())
            script = S.build_script(fam, sent, o, tail=tail)
            r = w.run(script, timeout=3)
            _judge(prop, fam, assertions, opts, script, r, res, named)
            if len(res['samples']) < 2: res['samples'].append({'script': script, 'stdout': r.out[:300]})
    return res


def stage_tasks(prop, fams, pool, n, optvecs, split=16):
    tasks = []
    for f in fams:
        for s in range(split):
            tasks.append((prop, f, pool, n, s, split, optvecs))
    return tasks


def run(prop, tier):
    rule = {'C01': 'every assertion set of each family (all 17 logic names) up to the size bound x option vectors within the deviation bound x push/pop histories; '
                   'non-trivial+distinct = distinct (family, assertion set) pairs answered unsat, each judged against a z3 model certified by the exact evaluator',
            'C02': 'same space; distinct = distinct (family, assertion set) answered sat, certified by evaluating OpenSMT\'s own model exactly, or refuted by z3+cvc5',
            'C03': 'every satisfiable set of the model-producing families; get-model, get-value on all pool terms and atoms, get-assignment; '
                   'distinct = distinct (family, assertion set) whose printed model was evaluated'}[prop]
    chk = core.Check(prop, tier, 'exploration', rule)
    chk.assumptions = ['reference facts about tiny formulas: z3 5.1 (models, certified by vlib/evalsmt.py) and, for refutations, z3 and cvc5 1.4 unanimously',
                       'anomalies are re-run twice in a fresh process of build/rel/opensmt and counted only if reproduced']
    runner.build('rel'); runner.harness('rel', 'osmt_worker')
    allf = F.LOGICS_ALL if prop != 'C03' else F.LOGICS_MODELS
    coref = [f for f in F.LOGICS_CORE if f in allf] + (['PROP'] if 'PROP' in allf else [])
    d1q = S.opt_vectors(1, ['lookahead', 'picky', 'ghost', 'noincr', 'proofs', 'itp', 'nosubst'])
    d1 = S.opt_vectors(1, ['lookahead', 'picky', 'ghost', 'noincr', 'proofs', 'cores', 'itp', 'nosubst', 'seed7', 'restart1', 'ccmin0', 'noelim', 'asymm', 'assign'])
    chk.run_stage('n<=2, all families, default options', stage_tasks(prop, allf, 'full', 2, [()], 4), task_single)
    chk.run_stage('n<=2, all families, option deviation 1 (%d vectors: engines, SatELite, proofs, interpolants, substitutions)' % (len(d1q) - 1), stage_tasks(prop, allf, 'full', 2, d1q[1:], 8), task_single)
    chk.run_stage('n<=3, core families, 6-atom pools, default options', stage_tasks(prop, coref, 'core', 3, [()], 8), task_single)
    H.run_stage_histories(chk, prop, tier)
    if tier == 'thorough':
        chk.run_stage('n<=2, all families, option deviation 1 (all %d vectors)' % (len(d1) - 1), stage_tasks(prop, allf, 'full', 2, d1[8:], 8), task_single)
        chk.run_stage('n<=3, core families, 6-atom pools, option deviation 1', stage_tasks(prop, coref, 'core', 3, d1[1:], 32), task_single)
        chk.run_stage('n<=3, all families, full pools, default options', stage_tasks(prop, allf, 'full', 3, [()], 64), task_single)
        d2 = S.opt_vectors(2, ['lookahead', 'picky', 'ghost', 'noincr', 'proofs', 'cores', 'itp', 'nosubst', 'seed7', 'restart1', 'noelim'])
        chk.run_stage('n<=2, all families, option deviation 2 (%d vectors)' % (len(d2) - len(d1)), stage_tasks(prop, allf, 'full', 2, d2[15:], 16), task_single)
    chk.extra['oracle'] = dict(refs.stats)
    return chk.finish()
