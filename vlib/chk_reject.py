"""C19: a rejected command leaves the solver state unchanged.  For EVERY history over {push, pop, assert p_i,
check-sat, query} up to a length bound, EVERY position and EVERY command r of a rejected-command alphabet, the
script with r inserted is compared, response by response, with the script without it (differential oracle on
the same build).  Some r come with a valid probe command placed right after them (on both sides) that would
expose a leaked name or declaration.  Responses that differ textually are validated semantically against the
reference stack (models, values, cores, interpolants, assignments may differ in form, not in meaning)."""
import itertools
from . import core, runner, smtlib, evalsmt, refs, families as F, scriptmc as S, histories as H, chk_itp

MODES = {
    # mode: (options text, named assertions, query)
    'models': ('(set-option :produce-models true)', False, '(get-model)'),
    'values': ('(set-option :produce-models true)', False, None),           # get-value on the family terms
    'cores': ('(set-option :produce-unsat-cores true)', True, '(get-unsat-core)'),
    'itp': ('(set-option :produce-interpolants true)', True, None),       # get-interpolants first-name vs rest
    'assign': ('(set-option :produce-models true)(set-option :produce-assignments true)', True, '(get-assignment)'),
}

# (id, template, probe or None); placeholders: {B} Bool symbol, {T} non-Bool nullary symbol, {NEXT} the name the base script
# introduces next, {EXIST} a name in scope, {D1}/{D2} current depth + 1 / + 2
REJECTED = [
    ('ill_sorted', '(assert (+ {B} 1))', None),
    ('unknown_symbol', '(assert nosuch_)', None),
    ('non_bool', '(assert {T})', None),
    ('named_failing_term_takes_next_name', '(assert (! (and {B} nosuch_) :named {NEXT}))', None),
    ('named_failing_term', '(assert (! nosuch_ :named fresh_))', '(assert (! true :named fresh_))'),
    ('inner_name_then_duplicate_outer_name', '(assert (! (or (! {B} :named {NEXT}) {B}) :named {EXIST}))', None),
    ('inner_name_then_duplicate_outer_name_probe', '(assert (! (or (! {B} :named inner_) {B}) :named {EXIST}))', '(assert (! true :named inner_))'),
    ('inner_name_then_failing_sibling', '(assert (or (! {B} :named inner_) nosuch_))', '(assert (! true :named inner_))'),
    ('duplicate_name', '(assert (! {B} :named {EXIST}))', None),
    ('duplicate_name_on_pool_term_0', '(assert (! {P0} :named {EXIST}))', None),       # the terms the history itself asserts, before or after this point
    ('duplicate_name_on_pool_term_1', '(assert (! {P1} :named {EXIST}))', None),
    ('duplicate_name_on_pool_term_2', '(assert (! {P2} :named {EXIST}))', None),
    ('ill_sorted_conjunct_with_pool_term', '(assert (! (and {P0} (+ {B} 1)) :named fresh_))', None),
    ('redeclare_other_sort', '(declare-fun {B} () Real)', None),
    ('redeclare_other_arity', '(declare-fun {B} (Bool) Bool)', None),
    ('declare_unknown_sort', '(declare-fun g_ (Nosort_) Bool)', '(declare-fun g_ () Bool)'),
    ('declare_const_unknown_sort', '(declare-const c_ Nosort_)', '(declare-const c_ Bool)'),
    ('define_bad_body', '(define-fun df_ () Bool nosuch_)', '(define-fun df_ () Bool {B})'),
    ('define_wrong_result_sort', '(define-fun df_ () Bool {T})', '(define-fun df_ () Bool {B})'),
    ('define_unknown_argument_sort', '(define-fun df_ ((z_ Nosort_)) Bool {B})', '(define-fun df_ () Bool {B})'),
    ('define_existing_name', '(define-fun {B} () Bool true)', None),
    ('pop_beyond_stack', '(pop {D1})', None),
    ('pop_beyond_stack_2', '(pop {D2})', None),
    ('push_negative', '(push -1)', None),
    ('get_value_unknown', '(get-value (nosuch_))', None),
    ('get_value_ill_sorted', '(get-value ((+ {B} 1)))', None),
    ('get_model_wrong_state', '(get-model)', None),
    ('get_core_wrong_state', '(get-unsat-core)', None),
    ('get_proof_wrong_state', '(get-proof)', None),
    ('get_assignment_wrong_state', '(get-assignment)', None),
    ('get_interpolants_wrong_state', '(get-interpolants {EXIST} {EXIST})', None),
    ('get_interpolants_unknown_name', '(get-interpolants nosuch_ {EXIST})', None),
    ('division_by_zero', '(assert (= {T} (/ {T} 0)))', None),
    ('non_linear', '(assert (= (* {T} {T}) {T}))', None),
    ('second_set_logic', '(set-logic QF_UF)', None),
    ('late_option', '(set-option :produce-proofs true)', None),
    ('set_option_bad_value', '(set-option :random-seed 0)', None),
    ('get_info_unknown', '(get-info :nosuch_)', None),
]


def symbols_of(fam):
    sig = S.decl_sig(fam.decls)
    b = next((n for n, (a, s) in sig.items() if not a and s == 'Bool'), None)
    t = next((n for n, (a, s) in sig.items() if not a and s != 'Bool'), None)
    return b, t


class Script:
    """a history rendered as a command list with the bookkeeping needed to instantiate rejected commands"""

    def __init__(self, fam, pool, hist, mode):
        self.fam = fam; self.mode = mode; self.hist = hist
        opt, named, query = MODES[mode]
        self.head = opt + '(set-logic %s)' % fam.logic + fam.decls + fam.defs
        self.cmds = []; self.info = []          # per command: (kind, depth before, names in scope before, next name, active named list, active plain list)
        frames = [[]]; cnt = 0
        seq = []
        for c in hist:
            if c.startswith('a'):
                i = int(c[1:]); nm = 'h%d_%d' % (i, cnt) if named else None; cnt += 1
                seq.append(('assert', i, nm))
            else:
                seq.append((c, None, None))
        for j, (c, i, nm) in enumerate(seq):
            nxt = next((n for (cc, ii, n) in seq[j:] if cc == 'assert' and n), None)
            scope = [(n, ix) for fr in frames for (ix, n) in fr]
            self.info.append({'depth': len(frames) - 1, 'scope': scope, 'next': nxt})
            if c == 'push': self.cmds.append('(push 1)'); frames.append([])
            elif c == 'pop': self.cmds.append('(pop 1)'); frames.pop()
            elif c == 'check': self.cmds.append('(check-sat)')
            elif c == 'query': self.cmds.append(self.query(scope))
            else:
                self.cmds.append('(assert (! %s :named %s))' % (pool[i], nm) if nm else '(assert %s)' % pool[i])
                frames[-1].append((i, nm))
        scope = [(n, ix) for fr in frames for (ix, n) in fr]
        self.info.append({'depth': len(frames) - 1, 'scope': scope, 'next': None})

    def query(self, scope):
        opt, named, query = MODES[self.mode]
        if query: return query
        if self.mode == 'values':
            return '(get-value (%s))' % ' '.join(self.fam.terms[:3] or ['p'])
        names = [n for n, _ in scope]
        if len(names) >= 3: return '(get-interpolants %s (and %s))' % (names[0], ' '.join(names[1:]))
        if len(names) == 2: return '(get-interpolants %s %s)' % tuple(names)
        return '(get-interpolants nosuch_a nosuch_b)'

    def text(self, insert=None):
        """insert = (position, [commands])"""
        cs = list(self.cmds)
        if insert: cs[insert[0]:insert[0]] = insert[1]
        return self.head + H.MARK + '\n' + '\n'.join(c + H.MARK for c in cs)


def instantiate(tmpl, info, bsym, tsym, pool=()):
    if '{T}' in tmpl and tsym is None: return None
    for i in range(3):
        if '{P%d}' % i in tmpl:
            if i >= len(pool): return None
            tmpl = tmpl.replace('{P%d}' % i, pool[i])
    if '{NEXT}' in tmpl and not info['next']: return None
    names = [n for n, _ in info['scope'] if n]
    if '{EXIST}' in tmpl and not names: return None
    return (tmpl.replace('{B}', bsym).replace('{T}', tsym or '').replace('{NEXT}', info['next'] or '').replace('{EXIST}', names[0] if names else '')
            .replace('{D1}', str(info['depth'] + 1)).replace('{D2}', str(info['depth'] + 2)))


def validate(sc, pool, pos_info, cmd, piece):
    """semantic validity of one query response w.r.t. the reference stack at that point: True / False / None (cannot tell)"""
    fam = sc.fam
    active = [pool[ix] for n, ix in pos_info['scope']]
    named = {n: pool[ix] for n, ix in pos_info['scope'] if n}
    if piece.startswith('(error'): return None
    try:
        if cmd.startswith('(get-model'):
            return S.check_model(fam, active, piece)[0] is None
        sx = smtlib.parse_one(piece)
        if cmd.startswith('(get-value'):
            eqs = ['(= %s %s)' % (smtlib.show(t), smtlib.show(v)) for t, v in sx]
            if refs.find_model(fam.logic, fam.decls, active + eqs, fam.defs) is not None: return True
            return False if refs.is_unsat(fam.logic, fam.decls, active + eqs, fam.defs) else None
        if cmd.startswith('(get-unsat-core'):
            if any(n not in named for n in sx): return False
            forms = [named[n] for n in sx] + [pool[ix] for n, ix in pos_info['scope'] if not n]
            if refs.find_model(fam.logic, fam.decls, forms, fam.defs) is not None: return False
            return True if refs.is_unsat(fam.logic, fam.decls, forms, fam.defs) else None
        if cmd.startswith('(get-assignment'):
            eqs = ['(= %s %s)' % (named[n], v) for n, v in sx if n in named]
            if any(n not in named for n, v in sx): return False
            if refs.find_model(fam.logic, fam.decls, active + eqs, fam.defs) is not None: return True
            return False if refs.is_unsat(fam.logic, fam.decls, active + eqs, fam.defs) else None
        if cmd.startswith('(get-interpolants'):
            names = [n for n, _ in pos_info['scope']]
            if len(names) < 2: return None
            A = [named[names[0]]]; B = [named[n] for n in names[1:]]
            bad = []
            ok = chk_itp.check_itp('C08', fam, chk_itp.user_symbols(fam), A, B, smtlib.show(sx[0]) if isinstance(sx, list) and sx else piece, lambda s, w: bad.append(s))
            return bool(ok)
    except (smtlib.ParseError, evalsmt.EvalError, RecursionError, TypeError, ValueError, IndexError, KeyError):
        return False
    return None


_base = {}


def base_pieces(w, sc, key, insert):
    k = (key, insert)
    if k not in _base:
        if len(_base) > 20000: _base.clear()
        r = w.run(sc.text(insert), timeout=3)
        _base[k] = None if (r.timeout or r.crash) else H.split_marked(r.out)
    return _base[k]


def task(t):
    famname, k, L, mode, start, step = t
    fam = F.FAMILIES[famname]; pool = H.POOLS[famname][:k]
    res = core.new_result(); cov = res['cov']
    w = S.worker()
    bsym, tsym = symbols_of(fam)
    hs = H.enumerate_histories(k, L, with_query=True)
    for hist in hs[start::step]:
        sc = Script(fam, pool, hist, mode)
        key = (famname, mode, hist)
        n = len(sc.cmds)
        for pos in range(n + 1):
            info = sc.info[pos]
            for rid, tmpl, probe in REJECTED:
                r = instantiate(tmpl, info, bsym, tsym, pool)
                if r is None: continue
                pr = instantiate(probe, info, bsym, tsym, pool) if probe else None
                base = base_pieces(w, sc, key, (pos, (pr,)) if pr else None)
                if base is None: cov['base_crash_or_timeout'] += 1; continue
                ins = [r] + ([pr] if pr else [])
                script = sc.text((pos, ins))
                run = w.run(script, timeout=3)
                cov['executions'] += 1; cov['transitions'] += n + len(ins)
                if run.timeout: cov['timeouts'] += 1; continue
                if run.crash: cov['crashes_left_to_C18'] += 1; continue
                pieces = H.split_marked(run.out)
                own = pieces[pos + 1] if pos + 1 < len(pieces) else ''
                if '(error' not in own:
                    cov['not_rejected'] += 1; continue        # the command was accepted here: not in the scope of the property
                cov['rejected'] += 1
                res['distinct'].append((famname, mode, rid, hist, pos))
                res['states'].append((famname, mode, hist[:pos]))
                rest = pieces[:pos + 1] + pieces[pos + 2:]
                if len(rest) != len(base):
                    _viol(res, fam, mode, rid, hist, pos, script, sc.text((pos, (pr,)) if pr else None), 'reject:response_count', 'the script with the rejected command prints %d responses, without it %d' % (len(rest), len(base)))
                    continue
                cmds = [None] + sc.cmds[:pos] + ([pr] if pr else []) + sc.cmds[pos:]
                infos = [None] + sc.info[:pos] + ([info] if pr else []) + sc.info[pos:]
                for j, (a, b) in enumerate(zip(rest, base)):
                    if a == b: continue
                    cmd = cmds[j] if j < len(cmds) else None
                    a1, b1 = a.strip(), b.strip()
                    if cmd is None or not cmd.startswith('(get-') or a1.startswith('(error') != b1.startswith('(error'):
                        _viol(res, fam, mode, rid, hist, pos, script, sc.text((pos, (pr,)) if pr else None), 'reject:response_changed',
                              'response to %s is %r with the rejected command %s before it and %r without' % (cmd, a1[:120], r, b1[:120]))
                        break
                    # both are answers to a query and differ in form: meaning must be preserved.  infos[j] is the state BEFORE
                    # command j, and a query does not change the state
                    va = validate(sc, pool, infos[j], cmd, a1)
                    if va is False:
                        vb = validate(sc, pool, infos[j], cmd, b1)
                        if vb is False:
                            cov['both_answers_invalid_left_to_C03_C06_C08'] += 1
                        else:
                            _viol(res, fam, mode, rid, hist, pos, script, sc.text((pos, (pr,)) if pr else None), 'reject:answer_invalid',
                                  'answer to %s after the rejected command %s is %r, which is not correct for the script without the command (there: %r)' % (cmd, r, a1[:120], b1[:120]))
                        break
                    cov['answers_differ_in_form_only' if va else 'answers_differ_undecided'] += 1
        if len(res['samples']) < 1: res['samples'].append({'family': famname, 'mode': mode, 'history': list(hist), 'script': sc.text()[:300]})
    return res


def _viol(res, fam, mode, rid, hist, pos, script, base_script, symptom, what):
    detail = 'name_already_exists' if 'already exists' in what.split(' with the rejected command ')[0] else 'other'
    rec = {'logic': fam.logic, 'family': fam.name, 'options': [mode], 'symptom': symptom, 'site': rid, 'input_class': 'history', 'detail': detail,
           'position': 'first' if pos == 0 else 'last' if pos == len(hist) else 'middle', 'what': what}
    res['violations'].append((rec, script + '\n; --- without the rejected command ---\n; ' + base_script.replace('\n', '\n; '), 'smt2'))


def run(prop, tier):
    chk = core.Check('C19', tier, 'model_checking',
                     'explicit enumeration of all histories over {push 1, pop 1, assert p_i, check-sat, query} up to the length bound per (family micro-pool, tracking mode in models/values/cores/interpolants/assignments) x every position x every command of a '
                     '%d-command rejected alphabet (with a leak probe where one exists); states = distinct (family, mode, history prefix) at which a command was rejected, transitions = commands executed; '
                     'oracle: the same build on the script without the command, response by response; answers that differ in form are validated against the reference stack; distinct = (family, mode, rejected command, history, position)' % len(REJECTED))
    chk.assumptions = ['only commands that the solver itself answers with (error ...) are in scope; an inserted command that is accepted is skipped (C18 judges acceptance of faulty input)',
                       'syntax errors reject the whole file before execution starts and are therefore not commands rejected in a state']
    runner.build('rel'); runner.harness('rel', 'osmt_worker')
    fams = ['PROP', 'QF_UF', 'QF_LRA', 'QF_LIA'] if tier == 'quick' else H.HIST_LOGICS_QUICK
    modes = list(MODES)
    def tasks(k, L, split, fs=fams, ms=modes): return [(f, k, L, m, s, split) for f in fs for m in ms if not (m in ('models', 'values') and not F.FAMILIES[f].models) for s in range(split)]
    chk.run_stage('L<=4, 3 assertions, %d modes' % len(modes), tasks(3, 4, 2), task)
    chk.run_stage('L<=5, 2 assertions', tasks(2, 5, 8, fs=(['QF_UF', 'QF_LRA'] if tier == 'quick' else fams)), task)
    if tier == 'thorough':
        chk.run_stage('L<=5, 3 assertions', tasks(3, 5, 16), task)
        chk.run_stage('L<=6, 2 assertions', tasks(2, 6, 32, fs=['PROP', 'QF_UF', 'QF_LRA', 'QF_LIA']), task)
    chk.extra['oracle'] = dict(refs.stats)
    return chk.finish()
