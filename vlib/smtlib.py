"""S-expression reader / printer for the SMT-LIB fragment OpenSMT reads and prints."""
import re

_TOK = re.compile(r'\s*(;[^\n]*|\(|\)|\|[^|]*\||"(?:[^"]|"")*"|[^\s()|";]+)')
_SIMPLE = re.compile(r'[A-Za-z~!@$%^&*_\-+=<>.?/][A-Za-z0-9~!@$%^&*_\-+=<>.?/]*$')


class ParseError(ValueError):
    pass


def tokenize(s):
    pos = 0; out = []
    n = len(s)
    while True:
        m = _TOK.match(s, pos)
        if not m:
            break
        t = m.group(1); pos = m.end()
        if t.startswith(';'):
            continue
        out.append(t)
    if s[pos:].strip():
        raise ParseError('lex error at %r' % s[pos:pos + 30])
    return out


def parse_all(s):
    """list of s-expressions; atoms are str, lists are python lists. |x| is unquoted when x is a simple symbol."""
    toks = tokenize(s)
    res = []; stack = [res]
    for t in toks:
        if t == '(':
            l = []; stack[-1].append(l); stack.append(l)
        elif t == ')':
            if len(stack) == 1:
                raise ParseError('unbalanced )')
            stack.pop()
        else:
            if t.startswith('|') and _SIMPLE.match(t[1:-1]):
                t = t[1:-1]
            stack[-1].append(t)
    if len(stack) != 1:
        raise ParseError('unbalanced (')
    return res


def parse_one(s):
    r = parse_all(s)
    if len(r) != 1:
        raise ParseError('expected one s-expression, got %d' % len(r))
    return r[0]


def show(x):
    if isinstance(x, str):
        return x
    return '(' + ' '.join(show(y) for y in x) + ')'


def symbols(x, acc=None):
    """all atom strings occurring in x"""
    if acc is None:
        acc = set()
    if isinstance(x, str):
        acc.add(x)
    else:
        for y in x:
            symbols(y, acc)
    return acc


def top_level_blocks(text):
    """split an output stream into top-level chunks: balanced s-expressions and bare lines.
    Returns list of strings. Respects strings, quoted symbols and comments."""
    out = []; i = 0; n = len(text)
    while i < n:
        c = text[i]
        if c in ' \t\r\n':
            i += 1; continue
        if c == ';':
            j = text.find('\n', i)
            j = n if j < 0 else j
            out.append(text[i:j]); i = j; continue
        if c == '(':
            depth = 0; j = i
            while j < n:
                d = text[j]
                if d == '"':
                    j += 1
                    while j < n:
                        if text[j] == '"':
                            if j + 1 < n and text[j + 1] == '"':
                                j += 2; continue
                            break
                        j += 1
                elif d == '|':
                    j = text.find('|', j + 1)
                    if j < 0: j = n
                elif d == ';':
                    k = text.find('\n', j)
                    j = n if k < 0 else k
                elif d == '(':
                    depth += 1
                elif d == ')':
                    depth -= 1
                    if depth == 0:
                        break
                j += 1
            out.append(text[i:j + 1]); i = j + 1; continue
        j = text.find('\n', i)
        j = n if j < 0 else j
        out.append(text[i:j].rstrip()); i = j
    return out
