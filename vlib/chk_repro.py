"""C23: runs of the executable are reproducible.  Every script of the n<=2 families (with every output-producing
query) is executed as a fresh process under K address-space environments; stdout bytes and exit status must be
identical across all of them."""
import itertools, os, subprocess, shutil
from . import core, runner, families as F, scriptmc as S, histories as H

ENVS = [
    ('no-aslr', ['setarch', 'x86_64', '-R'], {}, None),
    ('aslr-1', [], {}, None),
    ('aslr-2', [], {}, None),
    ('malloc-perturb', [], {'MALLOC_PERTURB_': '165'}, None),
    ('malloc-mmap-everything', [], {'MALLOC_MMAP_THRESHOLD_': '0', 'MALLOC_TOP_PAD_': '0'}, None),
    ('stack-shift', [], {'VERIF_PADDING': 'x' * 4096}, 'opensmt-' + 'y' * 150),
]
QUERIES = {
    'models': ('(set-option :produce-models true)', '(get-model)(get-value ({terms}))'),
    'cores': ('(set-option :produce-unsat-cores true)', '(get-unsat-core)'),
    'itp': ('(set-option :produce-interpolants true)', '(get-interpolants n0 n1)'),
    'proofs': ('(set-option :produce-proofs true)', '(get-proof)'),
}


def run_env(exe, fn, env):
    name, prefix, extra, argv0 = env
    e = dict(os.environ); e.update(extra)
    cmd = prefix + [exe, fn]
    try:
        if argv0 and not prefix:
            p = subprocess.run([argv0, fn], executable=exe, capture_output=True, timeout=20, env=e)
        else:
            p = subprocess.run(cmd, capture_output=True, timeout=20, env=e)
        return (p.returncode, p.stdout)
    except subprocess.TimeoutExpired:
        return ('timeout', b'')


def task(t):
    famname, n, mode, opts, start, step = t
    fam = F.FAMILIES[famname]
    res = core.new_result(); cov = res['cov']
    exe = os.path.join(runner.BUILD_ROOT, 'rel', 'opensmt')
    fn = os.path.join(runner.scratch(), 'repro_%d.smt2' % os.getpid())
    pre, q = QUERIES[mode]
    named = mode in ('cores', 'itp')
    units = n < 0       # n = -k: only assertion sets made of at most k single literals (process creation is slow in this sandbox)
    gen = (a for a in F.assertion_sets(fam.core, abs(n), ()) if not units or all(x in F.lits(fam.core) for x in a))
    envs = ENVS if K_ALL[0] else [ENVS[0], ENVS[1], ENVS[3], ENVS[4]]
    for assertions in itertools.islice(gen, start, None, step):
        if mode == 'itp' and len(assertions) < 2: continue
        asserts = ''.join('(assert (! %s :named n%d))' % (a, i) if named else '(assert %s)' % a for i, a in enumerate(assertions))
        script = pre + S.opt_text(opts) + '(set-logic %s)' % fam.logic + fam.decls + asserts + '(check-sat)' + q.format(terms=' '.join(fam.terms + fam.core))
        with open(fn, 'w') as f: f.write(script)
        obs = [run_env(exe, fn, e) for e in envs]
        cov['executions'] += len(envs); cov['scripts'] += 1
        res['distinct'].append((famname, mode, opts, tuple(assertions)))
        if any(o[0] == 'timeout' for o in obs): cov['timeouts'] += 1; continue
        if len(set(obs)) > 1:
            # replay once more to make sure the difference is not a fluke of this run
            obs2 = [run_env(exe, fn, e) for e in envs]
            allobs = set(obs) | set(obs2)
            diff = [envs[i][0] for i in range(len(envs)) if obs[i] != obs[0]]
            rec = {'logic': fam.logic, 'family': famname, 'options': sorted(opts), 'symptom': 'nondeterministic', 'site': mode, 'input_class': 'single_query',
                   'what': 'environments %s differ from %s; %d distinct outputs in two rounds; first: %r / other: %r' % (diff, envs[0][0], len(allobs), obs[0][1][:100], next(o for o in obs if o != obs[0])[1][:100])}
            res['violations'].append((rec, script, 'smt2'))
        if len(res['samples']) < 1: res['samples'].append({'script': script[:300], 'environments': [e[0] for e in envs], 'stdout': obs[0][1][:100].decode('latin-1')})
    try: os.unlink(fn)
    except OSError: pass
    return res


K_ALL = [False]

DIAG_HEAD = '(set-option :produce-models true)(set-logic QF_LRA)(declare-fun x () Real)(declare-fun q () Bool)'


def diag_task(t):
    """every command of C18's alphabet (valid and invalid forms: each provokes one of the interpreter's responses or
    error messages) alone, after a valid header, and (thorough) every ordered pair after the header"""
    from . import chk_crash
    pairs, start, step = t
    res = core.new_result(); cov = res['cov']
    exe = os.path.join(runner.BUILD_ROOT, 'rel', 'opensmt')
    fn = os.path.join(runner.scratch(), 'reprod_%d.smt2' % os.getpid())
    cmds = chk_crash.CMDS + ['(set-option :random-seed 0)', '(set-option :nosuch 1)', '(get-option :nosuch)', '(declare-fun x () Real)', '(assert (+ x q))', '(get-value ((* x x)))']
    scripts = [c for c in cmds] + [DIAG_HEAD + c for c in cmds]
    if pairs: scripts += [DIAG_HEAD + a + b for a in cmds for b in cmds]
    envs = ENVS if K_ALL[0] else [ENVS[0], ENVS[1], ENVS[3], ENVS[4]]
    for script in scripts[start::step]:
        with open(fn, 'w') as f: f.write(script)
        obs = [run_env(exe, fn, e) for e in envs]
        cov['executions'] += len(envs); cov['scripts'] += 1
        res['distinct'].append(('diag', script))
        if any(o[0] == 'timeout' for o in obs): cov['timeouts'] += 1; continue
        if len(set(obs)) > 1:
            diff = [envs[i][0] for i in range(len(envs)) if obs[i] != obs[0]]
            rec = {'logic': 'QF_LRA', 'family': 'diagnostics', 'options': [], 'symptom': 'nondeterministic', 'site': 'diagnostics', 'input_class': 'command_responses',
                   'what': 'environments %s differ from %s; first: %r / other: %r' % (diff, envs[0][0], obs[0][1][:120], next(o for o in obs if o != obs[0])[1][:120])}
            res['violations'].append((rec, script, 'smt2'))
    try: os.unlink(fn)
    except OSError: pass
    return res


def run(prop, tier):
    chk = core.Check('C23', tier, 'exploration',
                     'assertion sets of at most 2 single literals (thorough: every set of size<=2) over the 6-atom pools of the families, with each output-producing query (get-model + get-value on all pool terms; get-unsat-core; get-proof; get-interpolants), '
                     'default options and :random-seed 7, each executed as a fresh process of the real executable under K address-space environments (quick K=4: ASLR off, ASLR on, MALLOC_PERTURB_, every allocation mmapped; thorough K=6: + a second ASLR run, '
                     'environment and argv[0] padded); oracle: stdout bytes and exit status identical; distinct = (family, query, options, assertion set)')
    chk.assumptions = ['a bounded enumeration of controlled layout perturbations, not all layouts: pointer-keyed iteration order and uninitialised reads are the realistic causes and every environment changes pointer order or heap contents',
                       'process creation is serialised in this sandbox (~20 ms per spawn), which bounds the quick tier to a few thousand runs']
    runner.build('rel')
    if not shutil.which('setarch'): raise RuntimeError('setarch not available')
    K_ALL[0] = tier == 'thorough'
    n = 4
    mf = list(F.LOGICS_MODELS) if tier == 'thorough' else [f for f in F.LOGICS_MODELS if f in ('PROP', 'QF_UF', 'QF_LRA', 'QF_LIA', 'QF_IDL', 'QF_UFLRA', 'QF_UFLIA')]
    pf = ['PROP', 'QF_UF', 'QF_LRA', 'QF_LIA']
    sz = -2 if tier == 'quick' else 2
    chk.run_stage('responses and error messages of every command form (alone and after a valid header%s)' % ('; all ordered pairs' if tier == 'thorough' else ''),
                  [(tier == 'thorough', s, 16) for s in range(16)], diag_task)
    chk.run_stage('models/values, model-producing families', [(f, sz, 'models', (), s, n) for f in mf for s in range(n)], task)
    chk.run_stage('cores and proofs', [(f, sz, m, (), s, n) for f in pf for m in ('cores', 'proofs') for s in range(n)], task)
    chk.run_stage('interpolants', [(f, sz, 'itp', (), s, n) for f in pf[1:] for s in range(n)], task)
    chk.run_stage('random seed 7, models', [(f, sz, 'models', ('seed7',), s, n) for f in (pf if tier == 'thorough' else pf[2:]) for s in range(n)], task)
    return chk.finish()
