"""C17: printed SMT-LIB reads back to the same object.  User symbols (constants, a function, a sort) get names from an
alphabet of awkward but legal names (needing |quotes|: blanks, parentheses, semicolons, '#', leading digit, empty;
reserved words and command names; names that look like the solver's own auxiliary symbols) - EVERY ordered pair of
them - and every printing context is exercised: get-model, get-value, get-interpolants, get-unsat-core with
:print-cores-full, and the files written by :dump-query.  Whatever is printed is read back by the solver itself (and
tokenised by the independent reader vlib/smtlib.py) in a script that is satisfiable / unsatisfiable exactly if the
printed text denotes what it should."""
import itertools, os, re
from . import core, runner, smtlib, scriptmc as S

# (symbols starting with . or @ are reserved for the solver by SMT-LIB and are not in the alphabet; | cannot occur inside a symbol)
NAMES = ['x1', '|x 1|', '| y|', '|#z|', '|(|', '|)|', '|a;b|', '|"q"|', '|1x|', '|let|', '|assert|', '|as|', '|_|', '|!|', '|par|', '|x!0|', '|frame1|', '|x0|', '||', '|check-sat|', '|a\nb|', '|?def0|', '|:k|', '|r0|']
FNAMES = ['f', '|f g|', '|let|', '|x0|']
SNAMES = ['U', '|my sort|', '|Real x|']


def items(text):
    """texts of the top-level items inside the outermost parentheses of `text` (quoted symbols and strings respected)"""
    out = []; depth = 0; start = None; i = 0; n = len(text)
    while i < n:
        c = text[i]
        if c == '|':
            j = text.index('|', i + 1)
            if depth == 1 and start is None: out.append(text[i:j + 1])
            i = j + 1; continue
        if c == '"':
            j = i + 1
            while j < n and not (text[j] == '"' and text[j - 1] != '\\'): j += 1
            if depth == 1 and start is None: out.append(text[i:j + 1])
            i = j + 1; continue
        if c == '(':
            depth += 1
            if depth == 2: start = i
        elif c == ')':
            if depth == 2 and start is not None: out.append(text[start:i + 1]); start = None
            depth -= 1
        elif depth == 1 and start is None and not c.isspace():
            j = i
            while j < n and not text[j].isspace() and text[j] not in '()': j += 1
            out.append(text[i:j]); i = j; continue
        i += 1
    return out


def plain(name):
    """|a| and a are the same symbol"""
    return name[1:-1] if name.startswith('|') and smtlib._SIMPLE.match(name[1:-1] or ' ') else name


def abstract_values(text):
    """declarations that make the abstract values (as @k S) of a printed model readable: one constant per value, pairwise distinct per sort"""
    vals = sorted(set(re.findall(r'\(as (@[A-Za-z0-9_]+) (\|[^|]*\||[^\s()]+)\)', text)))
    out = ''.join('(declare-fun %s () %s)' % v for v in vals)
    by_sort = {}
    for v, srt in vals: by_sort.setdefault(srt, []).append(v)
    for srt, vs in by_sort.items():
        if len(vs) > 1: out += '(assert (distinct %s))' % ' '.join('(as %s %s)' % (v, srt) for v in vs)
    return out


def reread(w, cov, script, want, what, viol):
    """run a read-back script: no error response and the expected answer"""
    r = w.run(script, timeout=5)
    cov['executions'] += 1; cov['readbacks'] += 1
    if r.timeout or r.crash:
        viol('readback:crash_or_timeout', '%s: reading it back ends with %s' % (what, r.crash or 'timeout'), script); return False
    b = S.blocks(r.out)
    err = next((x for x in b if S.is_error(x)), None)
    if err is None and 'yntax error' in r.out: err = r.out.strip().split('\n')[0]
    if err is not None:
        viol('readback:rejected', '%s: the solver does not accept its own output: %s' % (what, err[:120]), script); return False
    ans = next((x for x in b if x in ('sat', 'unsat', 'unknown')), None)
    if ans != want:
        viol('readback:other_meaning', '%s: read back, the text means something else (expected %s, got %s)' % (what, want, ans), script); return False
    return True


BUILTIN = {'ite', 'not', 'and', 'or', 'xor', '=>', '=', 'distinct', 'true', 'false', '+', '-', '*', '/', '<', '<=', '>', '>=', 'select', 'store'}


def command_grammar(text):
    """violations of the SMT-LIB command grammar in a dumped query that a tolerant reader might let through: list of short descriptions"""
    bad = []
    try: cmds = smtlib.parse_all(text)
    except (smtlib.ParseError, RecursionError): return ['not an s-expression sequence']
    for c in cmds:
        if not isinstance(c, list) or not c: bad.append('top-level item is not a command'); continue
        if c[0] == 'declare-const' and (len(c) != 3 or not isinstance(c[1], str)): bad.append('declare-const is not (declare-const <symbol> <sort>)')
        if c[0] == 'declare-fun' and (len(c) != 4 or not isinstance(c[1], str) or not isinstance(c[2], list)): bad.append('declare-fun is not (declare-fun <symbol> (<sort>*) <sort>)')
        if c[0] in ('declare-fun', 'declare-const') and len(c) > 1 and isinstance(c[1], str) and c[1] in BUILTIN: bad.append('declares the theory symbol %s' % c[1])
    return sorted(set(bad))


def lex_ok(text):
    try:
        smtlib.parse_all(text); return True
    except (smtlib.ParseError, RecursionError):
        return False


def task(t):
    kind, start, step = t
    res = core.new_result(); cov = res['cov']
    w = S.worker()
    dq = os.path.join(runner.scratch(), 'dq%d' % os.getpid())
    pairs = [(a, b) for a in NAMES for b in NAMES if a != b]
    if kind == 'lra': jobs = [(a, b, None, None) for a, b in pairs]
    else: jobs = [(a, b, f, s) for a, b in pairs for f in FNAMES for s in SNAMES if f not in (a, b)]
    for n1, n2, fn, sn in jobs[start::step]:
        def viol(sym, what, script, n1=n1, n2=n2, fn=fn, sn=sn):
            rec = {'logic': 'QF_LRA' if kind == 'lra' else 'QF_UF', 'options': [], 'symptom': sym, 'site': what.split(':')[0], 'input_class': 'names',
                   'names': [x for x in (n1, n2, fn, sn) if x], 'what': what[:400]}
            res['violations'].append((rec, script, 'smt2'))
        res['distinct'].append((kind, n1, n2, fn, sn))
        if kind == 'lra':
            logic = 'QF_LRA'; decls = '(declare-fun %s () Real)(declare-fun %s () Real)' % (n1, n2)
            sat_as = ['(> %s (+ %s 1))' % (n1, n2), '(< %s 3)' % n1]; unsat_as = ['(> %s (+ %s 1))' % (n1, n2), '(< %s %s)' % (n1, n2)]
            vterms = [n1, n2, '(+ %s %s)' % (n1, n2)]
        else:
            logic = 'QF_UF'; decls = '(declare-sort %s 0)(declare-fun %s () %s)(declare-fun %s () %s)(declare-fun %s (%s) %s)' % (sn, n1, sn, n2, sn, fn, sn, sn)
            sat_as = ['(distinct %s %s)' % (n1, n2), '(= (%s %s) %s)' % (fn, n1, n2)]; unsat_as = ['(= %s %s)' % (n1, n2), '(not (= (%s %s) (%s %s)))' % (fn, n1, fn, n2)]
            vterms = [n1, '(%s %s)' % (fn, n2)]
        head = '(set-logic %s)%s' % (logic, decls)
        sortdecl = '' if kind == 'lra' else '(declare-sort %s 0)' % sn
        # ---- model and values
        script = '(set-option :produce-models true)' + head + ''.join('(assert %s)' % a for a in sat_as) + '(check-sat)(get-model)(get-value (%s))' % ' '.join(vterms)
        r = w.run(script, timeout=5); cov['executions'] += 1
        b = S.blocks(r.out) if not (r.crash or r.timeout) else []
        if len(b) >= 3 and b[0] == 'sat' and not S.is_error(b[1]) and not S.is_error(b[2]):
            cov['models'] += 1
            if not lex_ok(b[1]): viol('print:not_smtlib', 'get-model: the printed model is not a well-formed s-expression: %s' % b[1][:150], script)
            defs = items(b[1])
            if kind == 'lra':
                reread(w, cov, '(set-logic %s)%s%s%s(check-sat)' % (logic, sortdecl, ''.join(defs), ''.join('(assert %s)' % a for a in sat_as)), 'sat', 'get-model %s' % ' '.join(defs)[:200], viol)
            else:
                # values of the uninterpreted sort are abstract: read the definitions back on top of the declarations is not possible
                # (a symbol cannot be declared and defined); check instead that every definition is accepted under a fresh name
                for d in defs:
                    m = re.match(r'\(define-fun\s+(\|[^|]*\||\S+)', d)
                    if not m: viol('print:not_smtlib', 'get-model: item %s is not a define-fun' % d[:100], script); continue
                    if plain(m.group(1)) not in (plain(n1), plain(n2), plain(fn)): viol('print:other_symbol', 'get-model defines %s, which is none of the declared symbols %s' % (m.group(1), [n1, n2, fn]), script)
                # read back: the abstract values as distinct constants, the definitions instead of the declarations, then the assertions
                reread(w, cov, '(set-logic %s)%s%s%s%s(check-sat)' % (logic, sortdecl, abstract_values(b[1]), ''.join(defs), ''.join('(assert %s)' % a for a in sat_as)), 'sat', 'get-model %s' % ' '.join(defs)[:200], viol)
            cov['values'] += 1
            if not lex_ok(b[2]): viol('print:not_smtlib', 'get-value: not a well-formed s-expression: %s' % b[2][:150], script)
            pairs_ = items(b[2])
            eqs = []
            for p in pairs_:
                tv = items(p)
                if len(tv) != 2: viol('print:not_smtlib', 'get-value: item %s is not a (term value) pair' % p[:100], script); continue
                eqs.append('(assert (= %s %s))' % (tv[0], tv[1]))
            if kind == 'lra':
                reread(w, cov, head + ''.join('(assert %s)' % a for a in sat_as) + ''.join(eqs) + '(check-sat)', 'sat', 'get-value %s' % b[2][:200], viol)
                # the values must be the model's: with the model's definitions they are equalities between constants
                reread(w, cov, '(set-logic %s)%s%s(check-sat)' % (logic, ''.join(defs), ''.join(eqs)), 'sat', 'get-value %s against get-model' % b[2][:200], viol)
            else:
                reread(w, cov, '(set-logic %s)%s%s%s%s(check-sat)' % (logic, sortdecl, abstract_values(b[1] + b[2]), ''.join(defs), ''.join(eqs)), 'sat', 'get-value %s against get-model' % b[2][:200], viol)
        else:
            cov['model_runs_without_model'] += 1
            if b[:1] != ['sat']: viol('print:script_rejected', 'the script with these names is not answered sat: %s' % (r.out[:150] or r.crash), script)
        # ---- interpolant
        script = '(set-option :produce-interpolants true)' + head + '(assert (! %s :named A_))(assert (! %s :named B_))(check-sat)(get-interpolants A_ B_)' % tuple(unsat_as)
        r = w.run(script, timeout=5); cov['executions'] += 1
        b = S.blocks(r.out) if not (r.crash or r.timeout) else []
        if len(b) >= 2 and b[0] == 'unsat' and not S.is_error(b[1]):
            cov['interpolants'] += 1
            if not lex_ok(b[1]): viol('print:not_smtlib', 'get-interpolants: not a well-formed s-expression: %s' % b[1][:150], script)
            its = items(b[1])
            if len(its) == 1:
                reread(w, cov, head + '(assert %s)(assert (not %s))(check-sat)' % (unsat_as[0], its[0]), 'unsat', 'interpolant %s (A and not I)' % its[0][:150], viol)
                reread(w, cov, head + '(assert %s)(assert %s)(check-sat)' % (its[0], unsat_as[1]), 'unsat', 'interpolant %s (I and B)' % its[0][:150], viol)
            else: viol('print:not_smtlib', 'get-interpolants printed %d items' % len(its), script)
        else:
            cov['interpolant_runs_without_interpolant'] += 1
            if b[:1] != ['unsat']: viol('print:script_rejected', 'the script with these names is not answered unsat: %s' % (r.out[:150] or r.crash), script)
        # ---- full unsat core
        script = '(set-option :produce-unsat-cores true)(set-option :print-cores-full true)' + head + '(assert (! %s :named A_))(assert (! %s :named B_))(check-sat)(get-unsat-core)' % tuple(unsat_as)
        r = w.run(script, timeout=5); cov['executions'] += 1
        b = S.blocks(r.out) if not (r.crash or r.timeout) else []
        if len(b) >= 2 and b[0] == 'unsat' and not S.is_error(b[1]):
            cov['full_cores'] += 1
            if not lex_ok(b[1]): viol('print:not_smtlib', 'get-unsat-core (full): not a well-formed s-expression: %s' % b[1][:150], script)
            ts = items(b[1])
            reread(w, cov, head + ''.join('(assert %s)' % x for x in ts) + '(check-sat)', 'unsat', 'full unsat core %s' % b[1][:200], viol)
        # ---- dumped queries
        os.makedirs(dq, exist_ok=True)
        for f in os.listdir(dq): os.unlink(os.path.join(dq, f))
        script = '(set-option :dump-query true)(set-option :dump-query-name "%s/q")' % dq + head + '(assert %s)(push 1)(assert %s)(check-sat)(pop 1)(assert %s)(check-sat)' % (sat_as[0], sat_as[1], unsat_as[1])
        r = w.run(script, timeout=5); cov['executions'] += 1
        b = S.blocks(r.out) if not (r.crash or r.timeout) else []
        files = sorted(os.listdir(dq))
        if len(b) >= 2 and all(x in ('sat', 'unsat') for x in b[:2]) and len(files) == 2:
            for fn_, want in zip(files, b[:2]):
                text = open(os.path.join(dq, fn_), encoding='latin-1').read()
                cov['dumped_queries'] += 1
                if not lex_ok(text): viol('print:not_smtlib', 'dumped query is not well-formed: %s' % text[:200], script)
                reread(w, cov, text, want, 'dumped query %s' % fn_, viol)
                for g in command_grammar(text): viol('print:not_smtlib', 'dumped query header (%s)' % g, script)
        else:
            cov['dump_runs_without_files'] += 1
            viol('print:script_rejected', 'dump-query run: answers %s, %d files' % (b[:2], len(files)), script)
        if len(res['samples']) < 1: res['samples'].append({'names': [n1, n2, fn, sn], 'script': script[:300]})
    return res


def names_task(t):
    """assertion names (:named) from the same alphabet: get-unsat-core and get-assignment print them"""
    start, step = t
    res = core.new_result(); cov = res['cov']
    w = S.worker()
    pairs = [(a, b) for a in NAMES + ['|x%sy|', '|100%d|'] for b in NAMES if a != b]
    for a, b in pairs[start::step]:
        def viol(sym, what, script, a=a, b=b):
            rec = {'logic': 'QF_UF', 'options': [], 'symptom': sym, 'site': what.split(':')[0], 'input_class': 'assertion_names', 'names': [a, b], 'what': what[:400]}
            res['violations'].append((rec, script, 'smt2'))
        res['distinct'].append(('names', a, b))
        head = '(set-option :produce-unsat-cores true)(set-option :produce-assignments true)(set-logic QF_UF)(declare-fun p_ () Bool)(declare-fun q_ () Bool)'
        script = head + '(assert (or p_ q_))(check-sat)(get-assignment)(assert (! p_ :named %s))(check-sat)(get-assignment)(assert (! (not p_) :named %s))(check-sat)(get-unsat-core)' % (a, b)
        r = w.run(script, timeout=5); cov['executions'] += 1
        if r.crash or r.timeout:
            viol('print:crash', 'names: the run ends with %s' % (r.crash or 'timeout'), script); continue
        bl = S.blocks(r.out)
        if len(bl) != 6 or bl[0] != 'sat' or bl[2] != 'sat' or bl[4] != 'unsat' or any(S.is_error(x) for x in bl):
            viol('print:script_rejected', 'names: the script is not answered sat, (..), sat, (..), unsat, (..): %s' % r.out[:200], script); continue
        for what, text, want in (('get-assignment without names', bl[1], []), ('get-assignment', bl[3], [a]), ('get-unsat-core', bl[5], [a, b])):
            cov['name_lists'] += 1
            if not lex_ok(text): viol('print:not_smtlib', '%s: not a well-formed s-expression: %s' % (what, text[:100]), script); continue
            got = items(text)
            if what.startswith('get-assignment'): got = [items(g)[0] if items(g) else g for g in got]
            if sorted(plain(x) for x in got) != sorted(plain(x) for x in want):
                viol('print:other_symbol', '%s: prints %s for the names %s' % (what, text[:100], want), script)
        if len(res['samples']) < 1: res['samples'].append({'names': [a, b], 'script': script[:300]})
    return res


def run(prop, tier):
    chk = core.Check('C17', tier, 'exploration',
                     'every ordered pair of %d symbol names (plain, needing |quotes| for blanks, parentheses, semicolons, double quotes, #, a leading digit, a line break, the empty symbol; reserved words and command names; names shaped like the solver\'s auxiliary symbols) '
                     'for the two constants of a QF_LRA script, and of a QF_UF script additionally x %d function names x %d sort names; every printing context: get-model, get-value, get-interpolants, get-unsat-core with :print-cores-full, both files of :dump-query over a push/pop script; '
                     'oracle: the printed text is a well-formed s-expression for the independent reader, is accepted by the solver when read back, and denotes the same object (definitions satisfy the assertions, values agree with the model, A => I and I & B unsat, the core is unsat, the dumped query has the same answer); '
                     'distinct = name assignments' % (len(NAMES), len(FNAMES), len(SNAMES)))
    chk.assumptions = ['read-back uses the solver under test as the SMT-LIB reader (its reading of quoted symbols is checked by C20/C16 and the families), plus vlib/smtlib.py for well-formedness',
                       'values of uninterpreted sorts are abstract values of the printing run: models with them are read back on their own, not together with the original declarations']
    runner.build('rel'); runner.harness('rel', 'osmt_worker')
    chk.run_stage('QF_LRA: all ordered pairs of names, 5 printing contexts', [('lra', s, 16) for s in range(16)], task)
    chk.run_stage('QF_UF: pairs x function names x sort names, 5 printing contexts', [('uf', s, 32) for s in range(32)], task)
    chk.run_stage('assertion names: all ordered pairs, get-assignment (no name / one name) and get-unsat-core', [(s, 8) for s in range(8)], names_task)
    return chk.finish()
