"""C24: solver instances in different threads do not interfere.  harness/schedmc.cc runs 2..3 REAL threads under a
cooperative scheduler whose scheduling points are the hooks at the process-global state shared by independent solver
instances (free list of big rationals: pool.alloc / pool.alloc.mid / pool.release; congruence-id counter: cgid) and every
pthread_mutex_lock of a managed thread (interposed: a contended lock blocks the thread in the scheduler).  ALL schedules
with at most B preemptions are executed (iterative context bounding, each in a freshly forked child, prefixes replayed);
every thread must observe exactly what it observes alone.  A free-running ThreadSanitizer pass of the same bodies looks
for unsynchronised accesses, which the serialising scheduler cannot see."""
import os, subprocess
from . import core, runner, chk_native as N

QUICK = [('micro2', 2), ('micro2b', 2), ('micro3', 1), ('macro-uf', 1), ('macro-ufsat', 1), ('macro-lra', 1), ('macro-mixed', 1)]
THOROUGH = [('macro-lia', 1), ('macro-lraeq', 1), ('macro-liacut', 1), ('macro-itp', 1),('macro-uf', 2), ('micro2', 3), ('micro2b', 3), ('micro3', 2), ('macro-ufsat', 2), ('macro3', 1)]
ASAN = [('micro2', 1), ('micro2b', 1), ('macro-uf', 1)]


def run(prop, tier):
    chk = N.NativeCheck('C24', tier, 'model_checking',
                        'per harness (micro: 2 and 3 threads doing FastRational operations with 2^70-sized values on their own objects; macro: 2 and 3 threads each building its own logic and solver for an LRA / LIA / UF problem with 2^70 coefficients, '
                        'solving, reading the model) ALL thread schedules with at most B preemptions over the scheduling points {pool.alloc, pool.alloc.mid, pool.release, cgid, mutex lock}; '
                        'states = scheduling points reached, transitions = schedules executed; oracle: every thread observes (arithmetic results, answer, model text) exactly what it observes when run alone, no crash, no deadlock, replay determinism; distinct = schedules')
    chk.assumptions = ['sequential consistency between scheduling points; the shared mutable state of independent instances is exactly what the hooks mark (FastRational pool, Enode id counter) - the ThreadSanitizer pass is there to find any other',
                       'preemptions above the bound are not explored']
    binary = runner.harness('rel', 'schedmc')
    plan = QUICK + (THOROUGH if tier == 'thorough' else [])
    for h, b in plan:
        if chk.out_of_time():
            chk.exhaustive = False; chk.extra.setdefault('stages_skipped_for_deadline', []).append('%s bound %d' % (h, b)); continue
        res = N.run_shards(binary, ['explore', h, b], 16, 3000)
        N.absorb(chk, res, 'rel', replay_hint='build/rel/harness/schedmc replay %s <choices>' % h)
        chk.bounds_done.append({'stage': '%s: all schedules with <= %d preemptions' % (h, b), 'shards': 16})
    ab = runner.harness('asan', 'schedmc')
    for h, b in ASAN:
        if chk.out_of_time():
            chk.exhaustive = False; chk.extra.setdefault('stages_skipped_for_deadline', []).append('asan %s bound %d' % (h, b)); continue
        res = N.run_shards(ab, ['explore', h, b], 16, 3000)
        N.absorb(chk, res, 'asan', replay_hint='build/asan/harness/schedmc replay %s <choices>' % h)
        chk.bounds_done.append({'stage': 'ASan+UBSan build, %s: all schedules with <= %d preemptions' % (h, b), 'shards': 16})
    tb = runner.harness('tsan', 'schedmc')
    e = dict(os.environ); e.update(runner.SAN_ENV)
    nth, reps = (4, 1) if tier == 'quick' else (8, 5)      # per wave: 8 waves (7 instance kinds, all threads in the same code path, + 1 mixed)
    p = subprocess.run([tb, 'race', str(nth), str(reps)], capture_output=True, text=True, env=e, timeout=3000, errors='replace')
    races = [l for l in p.stderr.split('\n') if 'WARNING: ThreadSanitizer' in l]
    for line in p.stdout.split('\n'):
        f = line.split('\t')
        if f[0] == 'COV' and len(f) == 3 and f[1] == 'race_runs': chk.cov['tsan_free_running_runs'] += int(f[2])
        if f[0] == 'FAILCOUNT' and len(f) == 3:
            rec = {'symptom': f[1], 'site': 'free_running', 'variant': 'tsan', 'cases': int(f[2]), 'what': 'free-running threads: ' + next((l for l in p.stdout.split('\n') if l.startswith('FAIL\t' + f[1])), '')[:300], 'logic': None, 'options': []}
            chk.violations.append((rec, p.stdout[:4000], 'txt'))
    if races or p.returncode != 0:
        frames = [l.strip() for l in p.stderr.split('\n') if l.strip().startswith('#0 ')]
        site = frames[0].split(' /')[0][3:] if frames else 'unknown'
        rec = {'symptom': 'data_race', 'site': site[:120], 'variant': 'tsan', 'cases': len(races), 'what': 'ThreadSanitizer reports %d race(s) between %d free-running solver threads; first access: %s' % (len(races), nth, site), 'logic': None, 'options': []}
        chk.violations.append((rec, p.stderr[:6000] + '\nreplay: build/tsan/harness/schedmc race %d %d' % (nth, reps), 'txt'))
    chk.bounds_done.append({'stage': 'free-running ThreadSanitizer pass: %d threads x %d repetitions' % (nth, reps)})
    chk.cov['executions'] = chk.cov['schedules']
    chk.cov['states'] = chk.cov['scheduling_points']
    chk.cov['transitions'] = chk.cov['schedules']
    chk.cov['traces_validated'] = chk.cov['schedules']
    chk.distinct_count = chk.cov['schedules']
    return chk.finish()
