"""C25: asynchronous stop never produces a wrong answer.  harness/stopmc.cc runs the solver thread and a REAL second
thread under a controlled scheduler whose only scheduling point is the poll of the stop flags (OSMT_VERIF_SCHED("poll")
in CoreSMTSolver::okContinue): the stop request is placed before poll k for EVERY k; for the global flag the
exploration continues from every stopped state (resetGlobalStop, check again, stop again at every k2, ...).
A free-running pass of the same bodies under ThreadSanitizer looks for the data race the serialising scheduler hides."""
import os, subprocess
from . import core, runner, chk_native as N


def run(prop, tier):
    chk = N.NativeCheck('C25', tier, 'model_checking',
                        'per instance (19 quick / 24 thorough: pigeonhole sat and unsat, LRA, LIA, UF, UF+LRA; incremental, non-incremental with SatELite, lookahead, picky) and per flag (notifyStop, notifyGlobalStop): the stop request, issued by a real second thread, '
                        'is placed before poll k for EVERY k in 0..N (N = polls of the undisturbed run; k = N: after the last poll, before the model is read) = all schedules with one preemption; for the global flag every stopped state is resumed '
                        '(resetGlobalStop + check) and stopped again before EVERY poll k2 (thorough: a third round on instances with N <= 40), ending with an undisturbed check; '
                        'states = (instance, flag, k), transitions = schedules executed; oracle: every answer is unknown or the solo answer, the final undisturbed answer is the solo answer, a model read after sat satisfies every assertion, '
                        'each schedule replayed twice with identical observations; distinct = schedules')
    chk.assumptions = ['the stop flags are only read at the poll point, so under sequential consistency the N+1 placements are all distinguishable schedules of one request',
                       'the lookahead engine never polls the flags (0 polls): stop requests are ignored there, which is allowed by the property (the correct answer is returned)',
                       'weak-memory effects and unsynchronised accesses are left to the ThreadSanitizer pass, which is free-running and not the deciding step']
    binary = runner.harness('rel', 'stopmc')
    res = N.run_shards(binary, ['run', tier], 16, 3000)
    N.absorb(chk, res, 'rel', replay_hint='build/rel/harness/stopmc replay <instance> <local|global> <k1> [k2 ..]')
    chk.bounds_done.append({'stage': 'controlled scheduler, plain build: one stop at every poll; global: two stop/resume rounds at every pair of polls' + ('; three rounds on small instances' if tier == 'thorough' else ''), 'shards': 16})
    ab = runner.harness('asan', 'stopmc')
    res = N.run_shards(ab, ['run', 'quick'], 16, 3000)
    N.absorb(chk, res, 'asan', replay_hint='build/asan/harness/stopmc replay <instance> <local|global> <k1> [k2 ..]')
    chk.bounds_done.append({'stage': 'the same schedules (quick instance set) on the ASan+UBSan build', 'shards': 16})
    # free-running race pass under TSan (not exhaustive; detects unsynchronised accesses to the flags)
    tb = runner.harness('tsan', 'stopmc')
    e = dict(os.environ); e.update(runner.SAN_ENV)
    reps, nth = (3, 2) if tier == 'quick' else (10, 4)
    p = subprocess.run([tb, 'race', str(reps), str(nth)], capture_output=True, text=True, env=e, timeout=3000, errors='replace')
    races = [l for l in p.stderr.split('\n') if 'WARNING: ThreadSanitizer' in l]
    for line in p.stdout.split('\n'):
        f = line.split('\t')
        if f[0] == 'COV' and len(f) == 3 and f[1] == 'race_runs': chk.cov['tsan_free_running_runs'] += int(f[2])
    if races or p.returncode != 0:
        frames = [l.strip() for l in p.stderr.split('\n') if l.strip().startswith('#0 ')]
        site = frames[0].split(' /')[0][3:] if frames else 'unknown'
        rec = {'symptom': 'data_race', 'site': site[:120], 'variant': 'tsan', 'cases': len(races), 'what': 'ThreadSanitizer reports %d race(s) while a second thread issues the stop request; first access: %s' % (len(races), site), 'logic': None, 'options': []}
        chk.violations.append((rec, p.stderr[:6000] + '\nreplay: build/tsan/harness/stopmc race %d %d' % (reps, nth), 'txt'))
    chk.bounds_done.append({'stage': 'free-running ThreadSanitizer pass: %d stopper thread(s) x %d delays per instance and flag' % (nth, reps)})
    chk.cov['executions'] = chk.cov['schedules']
    chk.cov['transitions'] = chk.cov['schedules']
    chk.cov['traces_validated'] = chk.cov['schedules']
    chk.distinct_count = chk.cov['schedules']
    return chk.finish()
