"""C25: asynchronous stop never produces a wrong answer.  harness/stopmc.cc runs the solver thread and a REAL second
thread under a controlled scheduler whose only scheduling point is the poll of the stop flags (OSMT_VERIF_SCHED("poll")
in CoreSMTSolver::okContinue): the stop request is placed before poll k for EVERY k; for the global flag the
exploration continues from every stopped state (resetGlobalStop, check again, stop again at every k2, ...).
A free-running pass of the same bodies under ThreadSanitizer looks for the data race the serialising scheduler hides."""
import os, subprocess
from . import core, runner, chk_native as N


def script_task(t):
    """script level: every assertion set of a family (n <= 2 over the 6-atom pool) as (check-sat)(get-model)(check-sat)(get-model) through the real
    main(); a global stop request is placed before EVERY poll k of the run and withdrawn m polls later (m = 1, 2, never): the schedules of a second
    thread calling notifyGlobalStop() and then resetGlobalStop().  Every answer must be unknown or the undisturbed answer, every model printed after
    sat must satisfy the assertions (exact evaluation)."""
    from . import families as F, scriptmc as S
    famname, n, opts, start, step = t
    fam = F.FAMILIES[famname]
    res = core.new_result(); cov = res['cov']
    w = S.worker()
    import itertools
    for assertions in itertools.islice(F.assertion_sets(fam.core, n, ()), start, None, step):
        script = S.build_script(fam, assertions, opts, tail='(get-model)(check-sat)(get-model)')
        solo = w.run(script, timeout=5, stop=(1 << 30, 0))
        if solo.timeout or solo.crash: cov['solo_timeout_or_crash'] += 1; continue
        sb = S.blocks(solo.out)
        if len(sb) < 4 or sb[0] not in ('sat', 'unsat'): cov['solo_not_definitive'] += 1; continue
        want = sb[0]; N = solo.polls
        cov['scripts'] += 1; cov['polls_solo'] += N
        res['distinct'].append((famname, opts, tuple(assertions)))
        for k in range(N + 1):
            for m in (0, 1, 2):
                r = w.run(script, timeout=5, stop=(k, m))
                cov['executions'] += 1; cov['schedules'] += 1
                res['states'].append((famname, tuple(assertions), k))
                def viol(sym, what):
                    rec = {'logic': fam.logic, 'family': famname, 'options': sorted(opts), 'symptom': sym, 'site': 'script_level', 'variant': 'rel', 'input_class': 'withdrawn_after_%d' % m if m else 'not_withdrawn', 'what': what[:300]}
                    res['violations'].append((rec, script + '\n; global stop before poll %d of the run, withdrawn %s' % (k, ('%d polls later' % m) if m else 'never'), 'smt2'))
                if r.timeout: viol('stop:hang', 'the run does not end within 5 s with the stop before poll %d' % k); continue
                if r.crash: viol('stop:crash', 'the run ends with %s' % r.crash); continue
                b = S.blocks(r.out)
                if len(b) != 4: viol('stop:output_shape', 'expected 4 responses, got %r' % r.out[:150]); continue
                for i in (0, 2):
                    a = b[i]
                    cov['answers_' + (a if a in ('sat', 'unsat', 'unknown') else 'other')] += 1
                    if a == 'unknown': continue
                    if a != want: viol('stop:wrong_answer', 'check-sat #%d answers %s, undisturbed %s (stop before poll %d, m=%d)' % (i // 2, a, want, k, m)); break
                    if a == 'sat' and fam.models:
                        if S.is_error(b[i + 1]): viol('stop:no_model_after_sat', b[i + 1][:100]); break
                        reason, _ = S.check_model(fam, assertions, b[i + 1])
                        if reason is not None: viol('stop:bad_model', 'after check-sat #%d (stop before poll %d, m=%d): %s' % (i // 2, k, m, reason)); break
                        cov['models_certified'] += 1
        if len(res['samples']) < 1: res['samples'].append({'script': script, 'polls': N, 'undisturbed': solo.out[:100]})
    return res


def run(prop, tier):
    chk = N.NativeCheck('C25', tier, 'model_checking',
                        'per instance (19 quick / 24 thorough: pigeonhole sat and unsat, LRA, LIA, UF, UF+LRA; incremental, non-incremental with SatELite, lookahead, picky) and per flag (notifyStop, notifyGlobalStop): the stop request, issued by a real second thread, '
                        'is placed before poll k for EVERY k in 0..N (N = polls of the undisturbed run; k = N: after the last poll, before the model is read) = all schedules with one preemption; for the global flag every stopped state is resumed '
                        '(resetGlobalStop + check) and stopped again before EVERY poll k2 (thorough: a third round on instances with N <= 40), ending with an undisturbed check; '
                        'states = (instance, flag, k), transitions = schedules executed; oracle: every answer is unknown or the solo answer, the final undisturbed answer is the solo answer, a model read after sat satisfies every assertion, '
                        'each schedule replayed twice with identical observations; distinct = schedules')
    chk.assumptions = ['the stop flags are only read at the poll point, so under sequential consistency the N+1 placements are all distinguishable schedules of one request',
                       'the lookahead engine never polls the flags (0 polls): stop requests are ignored there, which is allowed by the property (the correct answer is returned)',
                       'weak-memory effects and unsynchronised accesses are left to the ThreadSanitizer pass, which is free-running and not the deciding step']
    # script level, through the real main(): global stop placed before every poll and withdrawn later (see script_task)
    from . import families as F
    runner.build('rel'); runner.harness('rel', 'osmt_worker')
    fams = ['PROP', 'QF_UF', 'QF_LRA', 'QF_LIA', 'QF_IDL', 'QF_UFLRA'] if tier == 'quick' else list(F.LOGICS_MODELS) + ['QF_AX', 'QF_ALIA']
    chk.run_stage('script level: assertion sets n<=2 of %d families, global stop before every poll, withdrawn after 1 / 2 polls / never' % len(fams), [(f, 2, (), s, 8) for f in fams for s in range(8)], script_task)
    if tier == 'thorough':
        for o in (('noincr',), ('picky',), ('ghost',), ('proofs',)):
            chk.run_stage('script level, options %s' % (o,), [(f, 2, o, s, 8) for f in fams for s in range(8)], script_task)
    binary = runner.harness('rel', 'stopmc')
    res = N.run_shards(binary, ['run', tier], 16, 3000)
    N.absorb(chk, res, 'rel', replay_hint='build/rel/harness/stopmc replay <instance> <local|global> <k1> [k2 ..]')
    chk.bounds_done.append({'stage': 'controlled scheduler, plain build: one stop at every poll; global: two stop/resume rounds at every pair of polls' + ('; three rounds on small instances' if tier == 'thorough' else ''), 'shards': 16})
    ab = runner.harness('asan', 'stopmc')
    res = N.run_shards(ab, ['run', 'quick'], 16, 3000)
    N.absorb(chk, res, 'asan', replay_hint='build/asan/harness/stopmc replay <instance> <local|global> <k1> [k2 ..]')
    chk.bounds_done.append({'stage': 'the same schedules (quick instance set) on the ASan+UBSan build', 'shards': 16})
    # free-running race pass under TSan (not exhaustive; detects unsynchronised accesses to the flags)
    tb = runner.harness('tsan', 'stopmc')
    e = dict(os.environ); e.update(runner.SAN_ENV)
    reps, nth = (3, 2) if tier == 'quick' else (10, 4)
    p = subprocess.run([tb, 'race', str(reps), str(nth)], capture_output=True, text=True, env=e, timeout=3000, errors='replace')
    races = [l for l in p.stderr.split('\n') if 'WARNING: ThreadSanitizer' in l]
    for line in p.stdout.split('\n'):
        f = line.split('\t')
        if f[0] == 'COV' and len(f) == 3 and f[1] == 'race_runs': chk.cov['tsan_free_running_runs'] += int(f[2])
    if races or p.returncode != 0:
        frames = [l.strip() for l in p.stderr.split('\n') if l.strip().startswith('#0 ')]
        site = frames[0].split(' /')[0][3:] if frames else 'unknown'
        rec = {'symptom': 'data_race', 'site': site[:120], 'variant': 'tsan', 'cases': len(races), 'what': 'ThreadSanitizer reports %d race(s) while a second thread issues the stop request; first access: %s' % (len(races), site), 'logic': None, 'options': []}
        chk.violations.append((rec, p.stderr[:6000] + '\nreplay: build/tsan/harness/stopmc race %d %d' % (reps, nth), 'txt'))
    chk.bounds_done.append({'stage': 'free-running ThreadSanitizer pass: %d stopper thread(s) x %d delays per instance and flag' % (nth, reps)})
    chk.cov['executions'] = chk.cov['schedules']
    chk.cov['transitions'] = chk.cov['schedules']
    chk.cov['traces_validated'] = chk.cov['schedules']
    chk.distinct_count = chk.cov['schedules']
    return chk.finish()
