"""Input families: per logic a declaration header, an atom pool built to collide, assertion shapes, and
deterministic enumerators of ALL assertion sets up to a size bound (size = number of literal occurrences)."""
import itertools

B31, B31m, B53, B63m, B63, B64 = 2 ** 31, 2 ** 31 - 1, 2 ** 53 + 1, 2 ** 63 - 1, 2 ** 63, 2 ** 64 + 3


def num(n):
    return str(n) if n >= 0 else '(- %d)' % -n


class Fam:
    def __init__(self, logic, decls, atoms, terms=(), core=None, models=True, defs='', extra=(), name=None):
        self.name = name or logic; self.logic = logic; self.decls = decls; self.atoms = list(atoms); self.terms = list(terms)
        self.core = list(core) if core is not None else self.atoms[:6]   # 6-atom sub-pool for deeper bounds
        self.models = models; self.defs = defs
        self.extra = list(extra)   # hand-picked multi-literal assertions (shapes that the generic shapes do not give)


_RX = '(declare-fun x () Real)(declare-fun y () Real)(declare-fun z () Real)'
_IX = '(declare-fun x () Int)(declare-fun y () Int)(declare-fun z () Int)'
_B = '(declare-fun p () Bool)(declare-fun q () Bool)'
_U = '(declare-sort U 0)(declare-fun a () U)(declare-fun b () U)(declare-fun c () U)(declare-fun f (U) U)(declare-fun g (U U) U)(declare-fun P (U) Bool)'

FAMILIES = {}


def _add(f):
    FAMILIES[f.name] = f


_add(Fam('QF_UF', name='PROP', decls='(declare-fun p () Bool)(declare-fun q () Bool)(declare-fun r () Bool)(declare-fun s () Bool)',
         atoms=['p', 'q', 'r', 's', '(= p q)', '(xor q r)', '(ite p q r)', '(=> r s)'], terms=['p', 'q', '(and p r)'],
         core=['p', 'q', 'r', '(= p q)', '(xor q r)', '(ite p q r)'],
         extra=['(or p q r)', '(or (not p) (not q) s)', '(= p q r)', '(distinct p q)', '(let ((t (and p q))) (or t r))']))

_add(Fam('QF_UF', _U + _B,
         ['(= a b)', '(= (f a) (f b))', '(= (f (f a)) a)', '(P a)', '(P b)', '(= (g a b) (g b a))', '(= b c)', 'p',
          '(= (f a) c)', '(distinct a b c)', '(= (P a) p)'],
         terms=['a', 'b', '(f a)', '(g a b)', '(P c)', '(f (f b))'],
         core=['(= a b)', '(= (f a) (f b))', '(= (f (f a)) a)', '(P a)', '(P b)', '(= b c)'],
         extra=['(= a b c)', '(= (ite p a b) c)', '(P (ite (= a b) a c))', '(let ((t (f a))) (= (f t) a))']))

_add(Fam('QF_LRA', _RX + _B,
         ['(<= x y)', '(< y x)', '(= x (+ y 1))', '(<= (+ x y) 2)', '(> (* 2 x) 1)', '(<= x 0)', '(>= x (/ 1 3))', '(distinct x y)',
          '(< (+ x y z) 0)', '(>= z (- x y))', '(= (* 3 z) (+ x 1))', 'p'],
         terms=['x', 'y', 'z', '(+ x y)', '(* 2 z)', '(- x)'],
         core=['(<= x y)', '(< y x)', '(= x (+ y 1))', '(<= (+ x y) 2)', '(> (* 2 x) 1)', '(<= x 0)'],
         extra=['(< x y z)', '(= x y z)', '(<= (ite p x y) 0)', '(= (ite (< x y) x y) 1)', '(let ((t (+ x y))) (< t (- t z)))',
                '(>= (/ x 2) (+ y 0.25))']))

_add(Fam('QF_LIA', _IX + _B,
         ['(<= x y)', '(< y x)', '(= x (+ y 1))', '(<= (* 2 x) 1)', '(>= (* 2 x) 1)', '(= (+ (* 3 x) (* 2 y)) 1)', '(= (+ (* 2 x) (* 2 y)) 7)',
          '(>= (div x 2) 1)', '(= (mod x 3) 1)', '(= (mod x (- 3)) 2)', '(distinct x y)', '(> x %d)' % B31, '(< (+ x y z) 0)', 'p'],
         terms=['x', 'y', 'z', '(+ x y)', '(div x 2)', '(mod y 3)'],
         core=['(<= x y)', '(< y x)', '(<= (* 2 x) 1)', '(>= (* 2 x) 1)', '(= (+ (* 2 x) (* 2 y)) 7)', '(= (mod x 3) 1)'],
         extra=['(< x y z)', '(= (div x (- 2)) y)', '(<= (ite p x y) 0)', '(= (* 2 x) (+ (* 2 y) 1))', '(and (< (* 3 x) 2) (> (* 3 x) 0))',
                '(let ((t (mod x 2))) (= t (+ t y)))', '(< (* 2 x) %d)' % (2 ** 64 + 1)]))

_idl_consts = [0, 1, -1, B31m, B31, B53, B63m, -B63, B64]
_add(Fam('QF_IDL', _IX + _B,
         ['(<= (- x y) 0)', '(<= (- y x) (- 1))', '(< (- y z) 1)', '(<= (- z x) 1)', '(>= (- x z) 0)', '(= x y)', '(<= x 3)', '(>= y 5)',
          '(<= (- x y) %d)' % B31, '(>= (- x y) %d)' % (B53), '(<= (- x y) %d)' % (B53 - 1), '(<= (- y x) %s)' % num(-B63m), 'p', '(distinct x z)'],
         terms=['x', 'y', 'z', '(- x y)'],
         core=['(<= (- x y) 0)', '(<= (- y x) (- 1))', '(< (- y z) 1)', '(<= (- z x) 1)', '(>= (- x y) %d)' % B53, '(<= (- x y) %d)' % (B53 - 1)],
         extra=['(< x y z)', '(= (- x y) 2)', '(>= (- x y) %d)' % B63m, '(<= (- x z) %s)' % num(-B63), '(> (- z y) %d)' % B64, '(< (- x y) %s)' % num(-B31)]))

_add(Fam('QF_RDL', _RX + _B,
         ['(<= (- x y) 0)', '(< (- y x) 0)', '(<= (- y z) (/ 1 2))', '(< (- z x) (- (/ 1 2)))', '(>= (- x z) 0)', '(= x y)', '(<= x 3)', '(> y 5)',
          '(<= (- x y) %d)' % B53, '(> (- x y) %d)' % (B53 - 1), 'p', '(distinct x z)'],
         terms=['x', 'y', 'z', '(- x y)'],
         core=['(<= (- x y) 0)', '(< (- y x) 0)', '(<= (- y z) (/ 1 2))', '(< (- z x) (- (/ 1 2)))', '(>= (- x z) 0)', '(= x y)'],
         extra=['(< x y z)', '(= (- x y) (/ 1 3))', '(>= (- x y) %d)' % B63, '(< (- x y) (/ 1 %d))' % B53]))

_UFA = '(declare-fun f (%s) %s)(declare-fun P (%s) Bool)'
_add(Fam('QF_UFLRA', _RX + _B + _UFA % ('Real', 'Real', 'Real'),
         ['(<= x y)', '(<= y x)', '(= (f x) (f y))', '(> (f x) 0)', '(< (f y) 0)', '(= (f (+ x 0)) y)', '(P x)', '(P y)', '(> (f x) x)', '(= z (f z))', 'p', '(< (+ x y) 1)'],
         terms=['x', 'y', '(f x)', '(f (f y))', '(+ (f x) y)'],
         core=['(<= x y)', '(<= y x)', '(= (f x) (f y))', '(> (f x) 0)', '(< (f y) 0)', '(P x)'],
         extra=['(= (f (ite p x y)) 1)', '(distinct (f x) (f y) z)', '(= (P x) (P y))', '(< (f (- x y)) (f 0))']))
_add(Fam('QF_UFLIA', _IX + _B + _UFA % ('Int', 'Int', 'Int'),
         ['(<= x y)', '(<= y x)', '(= (f x) (f y))', '(> (f x) 0)', '(< (f y) 0)', '(= (f (+ x 0)) y)', '(P x)', '(P y)', '(< x (+ y 1))', '(= z (f z))', 'p', '(= (* 2 x) (+ (* 2 y) 1))'],
         terms=['x', 'y', '(f x)', '(f (f y))', '(+ (f x) y)'],
         core=['(<= x y)', '(< y (+ x 1))', '(= (f x) (f y))', '(> (f x) 0)', '(< (f y) 0)', '(P x)'],
         extra=['(= (f (ite p x y)) 1)', '(distinct (f x) (f y) z)', '(= (P x) (P y))', '(< (f (- x y)) (f 0))', '(= (f (mod x 2)) (f 0))']))
_add(Fam('QF_UFIDL', _IX + _B + _UFA % ('Int', 'Int', 'Int'),
         ['(<= (- x y) 0)', '(<= (- y x) 0)', '(= (f x) (f y))', '(< (- (f x) (f y)) 0)', '(P x)', '(P y)', '(<= (- x z) 1)', '(= z (f z))', 'p', '(>= (- x y) %d)' % B53, '(<= (- x y) %d)' % (B53 - 1)],
         terms=['x', 'y', '(f x)'],
         core=['(<= (- x y) 0)', '(<= (- y x) 0)', '(= (f x) (f y))', '(< (- (f x) (f y)) 0)', '(P x)', '(P y)']))
_add(Fam('QF_UFRDL', _RX + _B + _UFA % ('Real', 'Real', 'Real'),
         ['(<= (- x y) 0)', '(<= (- y x) 0)', '(= (f x) (f y))', '(< (- (f x) (f y)) 0)', '(P x)', '(P y)', '(< (- x z) (/ 1 2))', '(= z (f z))', 'p'],
         terms=['x', 'y', '(f x)'],
         core=['(<= (- x y) 0)', '(<= (- y x) 0)', '(= (f x) (f y))', '(< (- (f x) (f y)) 0)', '(P x)', '(P y)']))

_AX = '(declare-sort I 0)(declare-sort E 0)(declare-fun a () (Array I E))(declare-fun b () (Array I E))(declare-fun i () I)(declare-fun j () I)(declare-fun e () E)(declare-fun d () E)'
_add(Fam('QF_AX', _AX + _B,
         ['(= a b)', '(= b (store a i e))', '(= (select a i) e)', '(= (select b j) (select a j))', '(= i j)', '(= a (store (store a i e) j e))', '(= (select b i) d)', '(= e d)', 'p',
          '(= (store a i e) (store b i e))', '(= (select (store a i e) j) d)'],
         models=False,
         core=['(= a b)', '(= b (store a i e))', '(= (select a i) e)', '(= (select b j) (select a j))', '(= i j)', '(= e d)'],
         extra=['(= (store a i e) (store a j e))', '(= (store (store a i e) j d) (store (store a j d) i e))', '(= (select (ite p a b) i) e)']))
_AL = '(declare-fun a () (Array Int Int))(declare-fun b () (Array Int Int))(declare-fun i () Int)(declare-fun j () Int)(declare-fun e () Int)'
_ALatoms = ['(= a b)', '(= b (store a i 5))', '(> (select a i) 5)', '(= (select b j) (select a j))', '(< i j)', '(> i j)', '(= (select a (+ i 1)) e)', '(= j (+ i 1))', 'p',
            '(= a (store (store a i e) j e))', '(<= (select b i) e)']
_add(Fam('QF_ALIA', _AL + _B, _ALatoms, models=False,
         core=['(= a b)', '(= b (store a i 5))', '(> (select a i) 5)', '(= (select b j) (select a j))', '(< i j)', '(> i j)'],
         extra=['(= (store a i e) (store a j e))', '(= (select (store a i e) (+ i 0)) (+ e 1))', '(= (select a (mod i 2)) 1)']))
_ALR = '(declare-fun a () (Array Real Real))(declare-fun b () (Array Real Real))(declare-fun i () Real)(declare-fun j () Real)(declare-fun e () Real)'
_ALRatoms = ['(= a b)', '(= b (store a i 5))', '(> (select a i) 5)', '(= (select b j) (select a j))', '(< i j)', '(> i j)', '(= (select a (+ i 1)) e)', '(= j (+ i (/ 1 2)))', 'p',
             '(<= (select b i) e)']
_add(Fam('QF_ALRA', _ALR + _B, _ALRatoms, models=False))
_add(Fam('QF_AUFLIA', _AL + _B + '(declare-fun f (Int) Int)', _ALatoms[:8] + ['(= (f i) (f j))', '(> (f (select a i)) 0)', '(= (select a (f i)) e)', 'p'], models=False))
_add(Fam('QF_AUFLRA', _ALR + _B + '(declare-fun f (Real) Real)', _ALRatoms[:8] + ['(= (f i) (f j))', '(> (f (select a i)) 0)', '(= (select a (f i)) e)', 'p'], models=False))
_MIX = '(declare-fun a () (Array Int Real))(declare-fun i () Int)(declare-fun j () Int)(declare-fun x () Real)(declare-fun y () Real)(declare-fun f (Int) Real)(declare-fun h (Real) Int)'
_MIXatoms = ['(< i j)', '(<= j i)', '(= (select a i) x)', '(> (select a j) x)', '(= (f i) (f j))', '(< (f i) y)', '(= (h x) i)', '(= (h y) j)', '(= x y)', '(< (+ x y) 0.5)', 'p',
             '(= a (store a j y))']
_add(Fam('QF_AUFLIRA', _MIX + _B, _MIXatoms, models=False))
_add(Fam('ALL', _MIX + _B, _MIXatoms, models=False))
FAMILIES['ALL'].logic = 'ALL'

LOGICS_ALL = list(FAMILIES.keys())
LOGICS_CORE = ['QF_UF', 'QF_LRA', 'QF_LIA', 'QF_IDL', 'QF_RDL', 'QF_UFLRA', 'QF_UFLIA', 'QF_AX']
LOGICS_MODELS = [l for l in LOGICS_ALL if FAMILIES[l].models]

BIN_SHAPES = ['(or %s %s)', '(and %s %s)', '(=> %s %s)', '(xor %s %s)', '(= %s %s)', '(not (and %s %s))']
TER_SHAPES = ['(ite %s %s %s)', '(or %s (and %s %s))', '(or %s %s %s)', '(let ((l_ %s)) (or l_ (and l_ %s) %s))']


def lits(atoms):
    out = []
    for a in atoms:
        out.append(a); out.append('(not %s)' % a)
    return out


def assertions_of_size(atoms, k, extra=()):
    """all single assertions with exactly k literal occurrences"""
    L = lits(atoms)
    if k == 1:
        return list(L)
    if k == 2:
        out = []
        for sh in BIN_SHAPES:
            sym = sh in ('(or %s %s)', '(and %s %s)', '(xor %s %s)', '(= %s %s)', '(not (and %s %s))')
            for i, a in enumerate(L):
                for j, b in enumerate(L):
                    if i == j or (sym and j < i): continue
                    out.append(sh % (a, b))
        return out + list(extra)
    if k == 3:
        out = []
        for sh in TER_SHAPES:
            for a, b, c in itertools.permutations(L, 3):
                if sh == '(or %s %s %s)' and not (a < b < c): continue
                out.append(sh % (a, b, c))
        return out
    raise ValueError(k)


def assertion_sets(atoms, n, extra=()):
    """ALL assertion sets (lists) of total size <= n, simplest first; n <= 4 supported (sizes of parts 1..3)."""
    by = {k: assertions_of_size(atoms, k, extra) for k in range(1, min(n, 3) + 1)}
    # integer partitions of m into parts <= 3, for m = 1..n
    def parts(m, mx):
        if m == 0:
            yield []
            return
        for p in range(min(m, mx), 0, -1):
            for rest in parts(m - p, p):
                yield [p] + rest
    for m in range(1, n + 1):
        for ps in sorted(parts(m, 3), key=lambda x: (len(x) * -1, x)):
            # choose assertions of the given sizes, unordered among equal sizes
            groups = [(p, len(list(g))) for p, g in itertools.groupby(ps)]
            pools = [itertools.combinations(by[p], cnt) for p, cnt in groups]
            for combo in itertools.product(*pools):
                yield [a for grp in combo for a in grp]


def count_sets(atoms, n, extra=()):
    return sum(1 for _ in assertion_sets(atoms, n, extra))
