"""property id -> check implementation"""
import importlib

CHECKS = {
    'C01': ('vlib.chk_sat', 'C01'), 'C02': ('vlib.chk_sat', 'C02'), 'C03': ('vlib.chk_sat', 'C03'),
    'C04': ('vlib.chk_incr', 'C04'),
    'C05': ('vlib.chk_conf', 'C05'),
    'C06': ('vlib.chk_cores', 'C06'), 'C07': ('vlib.chk_cores', 'C07'),
    'C08': ('vlib.chk_itp', 'C08'), 'C09': ('vlib.chk_itp', 'C09'),
    'C10': ('vlib.chk_proof', 'C10'),
    'C11': ('vlib.chk_trace', 'C11'), 'C12': ('vlib.chk_trace', 'C12'), 'C13': ('vlib.chk_trace', 'C13'), 'C26': ('vlib.chk_trace', 'C26'),
    'C14': ('vlib.chk_term', 'C14'), 'C27': ('vlib.chk_term', 'C27'), 'C28': ('vlib.chk_term', 'C28'),
    'C15': ('vlib.chk_rat', 'C15'),
    'C16': ('vlib.chk_lit', 'C16'),
    'C17': ('vlib.chk_print', 'C17'),
    'C18': ('vlib.chk_crash', 'C18'),
    'C19': ('vlib.chk_reject', 'C19'),
    'C20': ('vlib.chk_pipe', 'C20'),
    'C21': ('vlib.chk_scope', 'C21'),
    'C22': ('vlib.chk_tsolver', 'C22'),
    'C23': ('vlib.chk_repro', 'C23'),
    'C24': ('vlib.chk_sched', 'C24'),
    'C25': ('vlib.chk_stop', 'C25'),
    'C29': ('vlib.chk_misc', 'C29'), 'C30': ('vlib.chk_misc', 'C30'),
}


def run(pid, tier):
    mod, arg = CHECKS[pid]
    m = importlib.import_module(mod)
    return m.run(arg, tier)
