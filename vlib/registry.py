"""property id -> check implementation"""
import importlib

CHECKS = {
    'C01': ('vlib.chk_sat', 'C01'), 'C02': ('vlib.chk_sat', 'C02'), 'C03': ('vlib.chk_sat', 'C03'),
    'C04': ('vlib.chk_incr', 'C04'),
    'C05': ('vlib.chk_conf', 'C05'),
    'C15': ('vlib.chk_rat', 'C15'),
    'C16': ('vlib.chk_lit', 'C16'),
    'C29': ('vlib.chk_misc', 'C29'), 'C30': ('vlib.chk_misc', 'C30'),
}


def run(pid, tier):
    mod, arg = CHECKS[pid]
    m = importlib.import_module(mod)
    return m.run(arg, tier)
