"""C06 (unsat cores are unsatisfiable and name current assertions only) and C07 (minimal cores are irreducible).
Enumerates every labelling (named / unnamed / name on a nested subterm) of every subset order of the micro-pool
assertions in one frame, and every push/pop/assert/check/get-unsat-core history up to a length bound, under the
core options; the oracle is the Python reference stack + the reference layer."""
import itertools
from . import core, runner, refs, smtlib, families as F, scriptmc as S, histories as H

MODES = {'cores': ('cores',), 'min': ('mincores',), 'full': ('fullcores',), 'minfull': ('mincores', 'fullcores')}


def opt_text(mode):
    t = '(set-option :produce-unsat-cores true)'
    if 'min' in mode: t += '(set-option :minimal-unsat-cores true)'
    if 'full' in mode: t += '(set-option :print-cores-full true)'
    return t


def label_assert(a, lab, name):
    if lab == 'N': return '(assert (! %s :named %s))' % (a, name)
    if lab == 'S': return '(assert (or (! %s :named %s) aux_))' % (a, name)     # the name sits on a nested subterm
    return '(assert %s)' % a


AUX = '(declare-fun aux_ () Bool)'


def ref_text(a, lab):
    return '(or %s aux_)' % a if lab == 'S' else a


class Ref:
    """reference stack with labels: frames of (assertion text, label, name)"""
    def __init__(self): self.frames = [[]]
    def push(self): self.frames.append([])
    def pop(self): self.frames.pop()
    def add(self, a, lab, name): self.frames[-1].append((a, lab, name))
    def all(self): return [x for fr in self.frames for x in fr]


def judge_core(prop, mode, fam, ref, piece, res, script, ctx):
    """piece: text printed by get-unsat-core; returns nothing, appends violations"""
    cov = res['cov']
    cur = ref.all()
    named = {n: a for a, lab, n in cur if lab == 'N'}
    unnamed = [a for a, lab, n in cur if lab != 'N']
    def viol(sym, what):
        rec = {'logic': fam.logic, 'family': fam.name, 'options': [mode], 'symptom': sym, 'input_class': ctx, 'what': what[:300],
               'dup_assert': len(set(a for a, lab, n in cur)) < len(cur)}
        res['violations'].append((rec, script, 'smt2'))
    if piece is None or S.is_error(piece):
        return
    try:
        sx = smtlib.parse_one(piece)
    except smtlib.ParseError as e:
        viol('bad_core:unparsable', 'core output does not parse: %s' % piece[:100]); return
    cov['cores_checked'] += 1
    if 'full' not in mode:
        if not all(isinstance(x, str) for x in sx):
            viol('bad_core:not_a_list_of_names', piece[:100]); return
        if len(set(sx)) != len(sx):
            viol('bad_core:repeated_name', piece[:100])
        for n in sx:
            if n not in named:
                if prop == 'C06':   # C07 leaves the validity of the names to C06
                    viol('bad_core:name_not_a_current_named_assertion', 'core mentions %s; current named assertions: %s' % (n, sorted(named)))
                return
        core_f = [named[n] for n in sx]
        res['distinct'].append((fam.name, mode, tuple(sorted(core_f)), tuple(sorted(unnamed))))
        if prop == 'C06':
            if refs.find_model(fam.logic, fam.decls + AUX, core_f + unnamed) is not None:
                viol('bad_core:satisfiable', 'core %s together with the unnamed assertions %s has a certified model' % (sx, unnamed))
        else:
            for n in sx:
                rest = [named[m] for m in sx if m != n] + unnamed
                cov['irreducibility_queries'] += 1
                if refs.is_unsat(fam.logic, fam.decls + AUX, rest):
                    viol('reducible_core', 'core %s stays unsatisfiable (z3+cvc5) without %s (unnamed: %s)' % (sx, n, unnamed)); break
    else:
        printed = [smtlib.show(x) for x in sx]
        res['distinct'].append((fam.name, mode, tuple(sorted(printed))))
        cur_f = [a for a, lab, n in cur]
        if prop == 'C06':
            for p in printed:
                if not any(refs.is_unsat(fam.logic, fam.decls + AUX, ['(xor %s %s)' % (p, a)]) for a in cur_f):
                    viol('bad_core:printed_formula_not_a_current_assertion', 'printed %s is equivalent to none of the current assertions %s' % (p, cur_f)); break
            if refs.find_model(fam.logic, fam.decls + AUX, printed) is not None:
                viol('bad_core:satisfiable', 'the printed formulas %s have a certified model' % printed)
        elif len(printed) == len(set(printed)):
            for i in range(len(printed)):
                rest = printed[:i] + printed[i + 1:]
                cov['irreducibility_queries'] += 1
                if rest and refs.is_unsat(fam.logic, fam.decls + AUX, rest):
                    viol('reducible_core', 'printed core %s stays unsatisfiable without %s' % (printed, printed[i])); break


def frame_task(t):
    prop, famname, k, modes, start, step = t
    fam = F.FAMILIES[famname]; pool = H.POOLS[famname]
    res = core.new_result(); cov = res['cov']
    w = S.worker()
    jobs = []
    for r in range(1, k + 1):
        for idxs in itertools.permutations(range(min(len(pool), k + 1)), r):
            if r > 2 and list(idxs) != sorted(idxs): continue     # all orders for pairs, sorted order for larger subsets
            for labs in itertools.product('NUS', repeat=r):
                jobs.append((idxs, labs))
    for idxs, labs in jobs[start::step]:
        for mode in modes:
            ref = Ref()
            s = [opt_text(mode), '(set-logic %s)' % fam.logic, fam.decls, AUX, '(assert (not aux_))']
            ref.add('(not aux_)', 'U', None)
            for j, (i, lab) in enumerate(zip(idxs, labs)):
                nm = 'n%d' % j
                s.append(label_assert(pool[i], lab, nm)); ref.add(ref_text(pool[i], lab), lab, nm)
            s.append('(check-sat)(echo "@@")(get-unsat-core)')
            script = ''.join(s)
            r = w.run(script, timeout=5)
            cov['executions'] += 1
            if r.timeout or r.crash: cov['timeouts_or_crashes'] += 1; continue
            parts = r.out.split('@@\n')
            if S.blocks(parts[0])[:1] != ['unsat'] or len(parts) < 2: continue
            cov['unsat_runs'] += 1
            judge_core(prop, mode, fam, ref, parts[1].strip(), res, script, 'single_frame')
        if len(res['samples']) < 1 and 'r' in dir(): res['samples'].append({'script': script, 'stdout': r.out[:200]})
    return res


def hist_task(t):
    prop, famname, k, L, mode, labels, start, step = t
    fam = F.FAMILIES[famname]; pool = H.POOLS[famname][:k]
    res = core.new_result(); cov = res['cov']
    w = S.worker()
    for hist in H.enumerate_histories(k, L, with_query=True)[start::step]:
        if 'query' not in hist: continue
        ref = Ref(); cnt = 0
        s = [opt_text(mode), '(set-logic %s)' % fam.logic, fam.decls, AUX, '(assert (not aux_))', H.MARK]
        ref.add('(not aux_)', 'U', None)
        refs_at = []
        for c in hist:
            if c == 'push': s.append('(push 1)'); ref.push()
            elif c == 'pop': s.append('(pop 1)'); ref.pop()
            elif c == 'check': s.append('(check-sat)')
            elif c == 'query': s.append('(get-unsat-core)')
            else:
                i = int(c[1:]); lab = labels[i % len(labels)]; nm = 'h%d_%d' % (i, cnt); cnt += 1
                s.append(label_assert(pool[i], lab, nm)); ref.add(ref_text(pool[i], lab), lab, nm)
            s.append(H.MARK)
            snap = Ref(); snap.frames = [list(fr) for fr in ref.frames]
            refs_at.append(snap)
        script = '\n'.join(s)
        r = w.run(script, timeout=5)
        cov['executions'] += 1; cov['transitions'] += len(hist)
        if r.timeout or r.crash: cov['timeouts_or_crashes'] += 1; continue
        pieces = r.out.split('@@\n')
        last_check = None
        for pos, c in enumerate(hist):
            res['states'].append((famname, tuple(tuple(fr) for fr in refs_at[pos].frames)))
            piece = pieces[pos + 1].strip() if pos + 1 < len(pieces) else None
            if c == 'check': last_check = (pos, piece)
            elif c == 'query' and last_check and last_check[1] == 'unsat' and all(x in ('query',) for x in hist[last_check[0] + 1:pos]):
                # judged only when it directly follows the unsat check (queries in between allowed)
                popped_unsat = any(hist[j] == 'check' and j + 1 < len(pieces) and pieces[j + 1].strip() == 'unsat' and 'pop' in hist[j:pos] for j in range(pos))
                judge_core(prop, mode, fam, refs_at[pos], piece, res, script, 'history:unsat_frame_popped' if popped_unsat else 'history')
        if len(res['samples']) < 1: res['samples'].append({'history': list(hist), 'stdout': r.out[:200]})
    return res


# pools with redundancy: duplicated, subsumed and mutually implying assertions (so that minimisation and the
# background of unnamed assertions have something to get wrong)
RPOOLS = {
    ('PROP', 'r1'): ['p', '(or (not p) q)', '(not q)', '(and p q)'],
    ('PROP', 'r2'): ['(or p q)', '(not q)', '(not p)', '(and (not q) r)'],
    ('QF_UF', 'r1'): ['(= a b)', '(not (= (f a) (f b)))', '(and (= a b) (P c))', '(= (f a) (f b))'],
    ('QF_LRA', 'r1'): ['(> x 1)', '(<= (* 2 x) 2)', '(> x 0)', '(and (> x 1) (< y 0))'],
    ('QF_LIA', 'r1'): ['(> x y)', '(< x (+ y 1))', '(>= x (+ y 1))', '(and (> x y) (> z 0))'],
    ('QF_IDL', 'r1'): ['(<= (- x y) (- 1))', '(<= (- y x) 0)', '(< (- x y) 0)', '(and (<= (- x y) (- 1)) (<= (- y z) 0))'],
}
PLACES = ['absent', 'base_N', 'base_U', 'popped_N', 'popped_U', 'after_N', 'after_U', 'top_N', 'top_U']


def place_task(t):
    """every placement of the 4 pool assertions into {level 0 before, a frame that is popped, level 0 after the pop,
    a frame that stays active} x {named, unnamed}, with and without a check-sat inside the popped frame"""
    prop, famname, pname, modes, start, step = t
    fam = F.FAMILIES[famname]; pool = RPOOLS[(famname, pname)]
    res = core.new_result(); cov = res['cov']
    w = S.worker()
    jobs = [pl for pl in itertools.product(range(len(PLACES)), repeat=len(pool)) if any(PLACES[x] != 'absent' for x in pl)]
    for pl in jobs[start::step]:
        for inner_check in (False, True):
            if inner_check and not any(PLACES[x].startswith('popped') for x in pl): continue
            for mode in modes:
                ref = Ref()
                s = [opt_text(mode), '(set-logic %s)' % fam.logic, fam.decls]
                def emit(where):
                    for i, x in enumerate(pl):
                        pw, _, lab = PLACES[x].partition('_')
                        if pw == where:
                            nm = 'n%d' % i
                            s.append(label_assert(pool[i], lab, nm)); ref.add(pool[i], lab, nm)
                emit('base')
                if any(PLACES[x].startswith('popped') for x in pl):
                    s.append('(push 1)'); ref.push(); emit('popped')
                    if inner_check: s.append('(check-sat)')
                    s.append('(pop 1)'); ref.pop()
                emit('after')
                if any(PLACES[x].startswith('top') for x in pl):
                    s.append('(push 1)'); ref.push(); emit('top')
                s.append('(echo "@@")(check-sat)(echo "@@")(get-unsat-core)')
                script = ''.join(s)
                r = w.run(script, timeout=5)
                cov['executions'] += 1
                if r.timeout or r.crash: cov['timeouts_or_crashes'] += 1; continue
                parts = r.out.split('@@\n')
                if len(parts) < 3 or S.blocks(parts[1])[:1] != ['unsat']: continue
                cov['unsat_runs'] += 1
                judge_core(prop, mode, fam, ref, parts[2].strip(), res, script, 'placement:unsat_frame_popped' if 'unsat' in parts[0] else 'placement')
        if len(res['samples']) < 1 and 'script' in dir(): res['samples'].append({'script': script, 'stdout': r.out[:200]})
    return res


def run(prop, tier):
    what = {'C06': 'the core names only current top-level named assertions, without repetition, and core + unnamed assertions have no certified model (full mode: every printed formula is equivalent to a current assertion)',
            'C07': 'removing any single member leaves a set that z3 and cvc5 do not both refute'}[prop]
    chk = core.Check(prop, tier, 'model_checking' if False else 'exploration',
                     'every ordered subset (size<=k) of each logic micro-pool x every labelling {named, unnamed, name on a nested subterm} in one frame, and every push/pop/assert/check-sat/get-unsat-core history up to length L with fixed labellings, '
                     'under the core option modes; oracle: ' + what + '; distinct = distinct (family, mode, core, unnamed background)')
    chk.assumptions = ['reference layer as in C01/C02', 'Python reference of the assertion stack and of :named scoping']
    runner.build('rel'); runner.harness('rel', 'osmt_worker')
    fams = H.HIST_LOGICS_QUICK if tier == 'quick' else H.HIST_LOGICS_ALL
    modes = ['cores', 'min', 'full', 'minfull'] if prop == 'C06' else ['min', 'minfull']
    k = 4 if tier == 'quick' else 5
    chk.run_stage('one frame: ordered subsets (<=%d of the pool) x 3^r labellings x modes %s' % (k, modes), [(prop, f, k, modes, s, 8) for f in fams for s in range(8)], frame_task)
    pm = ['cores', 'min'] if prop == 'C06' else ['min']
    chk.run_stage('placements: 4 redundant assertions x {absent, level 0, popped frame, after the pop, active frame} x {named, unnamed} (9^4) x inner check, %d pools, modes %s' % (len(RPOOLS), pm),
                  [(prop, f, pn, pm, s, 8) for (f, pn) in RPOOLS for s in range(8)], place_task)
    hm = ['cores', 'min'] if prop == 'C06' else ['min']
    for mode in hm:
        for labels in ('NU', 'UN', 'NN'):
            chk.run_stage('histories L<=6 (3 assertions), mode %s, labelling pattern %s' % (mode, labels), [(prop, f, 3, 6, mode, labels, s, 4) for f in fams for s in range(4)], hist_task)
    if tier == 'thorough':
        for mode in modes:
            chk.run_stage('histories L<=7 (3 assertions), mode %s, labelling NUS' % mode, [(prop, f, 3, 7, mode, 'NUS', s, 16) for f in fams for s in range(16)], hist_task)
    chk.extra['oracle'] = dict(refs.stats)
    return chk.finish()
