"""Independent checker for OpenSMT's printed resolution proofs (get-proof)."""
import re
from . import smtlib


class ProofError(Exception):
    def __init__(self, rule, msg):
        Exception.__init__(self, msg); self.rule = rule


def lit_key(t):
    if isinstance(t, list) and len(t) == 2 and t[0] == 'not':
        return (False, smtlib.show(t[1]))
    return (True, smtlib.show(t))


def clause_of(t):
    if isinstance(t, list) and t and t[0] == 'or':
        return frozenset(lit_key(x) for x in t[1:])
    return frozenset([lit_key(t)])


def check(text):
    """returns (leaves: {name: clause}, core names, n_steps). Raises ProofError(rule, message)."""
    try:
        sx = smtlib.parse_all(text)
    except smtlib.ParseError as e:
        raise ProofError('unparsable', str(e))
    if len(sx) != 1 or not isinstance(sx[0], list) or not sx[0] or sx[0][0] != 'proof':
        raise ProofError('unparsable', 'not a (proof ...) term')
    p = sx[0]
    if len(p) < 2: raise ProofError('unparsable', 'empty proof')
    node = p[1]
    core = None
    if ':core' in p:
        i = p.index(':core')
        core = p[i + 1] if i + 1 < len(p) and isinstance(p[i + 1], list) else None
    env = {}; leaves = {}; steps = [0]

    def res1(a, b, pos, neg):
        if pos in a and neg in b: return (a - {pos}) | (b - {neg})
        if neg in a and pos in b: return (a - {neg}) | (b - {pos})
        return None

    def res(A, B, piv):
        """A, B: lists of candidate readings of the premises (a printed '(or x y)' is either the clause {x, y} or the
        unit clause whose only literal is the term (or x y): the format does not distinguish them)"""
        k = lit_key(piv)
        if not k[0]: raise ProofError('pivot', 'pivot %s is printed negated' % k[1])
        pos = (True, k[1]); neg = (False, k[1])
        steps[0] += 1
        out = []
        for a in A:
            for b in B:
                r = res1(a, b, pos, neg)
                if r is not None and r not in out: out.append(r)
        if not out:
            raise ProofError('pivot', 'pivot %s does not occur with opposite signs in the premises %s and %s' % (k[1], sorted(A[0]), sorted(B[0])))
        return out

    def ev(t):
        if isinstance(t, str):
            if t not in env: raise ProofError('unbound', 'clause name %s is used before it is bound' % t)
            return env[t]
        if isinstance(t, list) and len(t) == 4 and t[0] == 'res':
            return res(ev(t[1]), ev(t[2]), t[3])
        raise ProofError('unparsable', 'bad derivation %s' % smtlib.show(t)[:80])

    while isinstance(node, list) and node and node[0] == 'let':
        if len(node) != 3 or not isinstance(node[1], list) or len(node[1]) != 2:
            raise ProofError('unparsable', 'malformed let')
        name, d = node[1]
        if name in env: raise ProofError('rebound', 'clause name %s bound twice' % name)
        if isinstance(d, list) and d and d[0] == 'res':
            env[name] = ev(d)
        else:
            cands = [clause_of(d)]
            if isinstance(d, list) and d and d[0] == 'or': cands.append(frozenset([lit_key(d)]))
            env[name] = cands; leaves[name] = cands[0]
        node = node[2]
    if not isinstance(node, str):
        raise ProofError('unparsable', 'proof body is not a clause name')
    if node not in env:
        raise ProofError('unbound', 'the proof body refers to %s, which is not bound' % node)
    if not any(len(c) == 0 for c in env[node]):
        raise ProofError('not_empty', 'the final clause %s is not empty: %s' % (node, sorted(env[node][0])))
    if core is not None:
        for c in core:
            if c not in leaves: raise ProofError('core', ':core mentions %s, which is not a leaf of the proof' % c)
    return leaves, core, steps[0]


def clause_text(cl):
    """clause (frozenset of (positive?, term text)) -> SMT-LIB disjunction"""
    ls = [t if pos else '(not %s)' % t for pos, t in sorted(cl, key=lambda x: x[1])]
    if not ls: return 'false'
    return ls[0] if len(ls) == 1 else '(or %s)' % ' '.join(ls)


FRAME = re.compile(r'^\|?\.frame(\d+)\|?$')


def split_guards(cl):
    """-> (clause without frame literals, set of (frame id, positive?))"""
    rest = set(); guards = set()
    for pos, t in cl:
        m = FRAME.match(t)
        if m: guards.add((int(m.group(1)), pos))
        else: rest.add((pos, t))
    return frozenset(rest), guards
