"""Explicit enumeration of ALL push/pop/assert/check/query histories up to a length bound over a micro-pool
of assertions, with a Python reference model of the assertion stack."""
import itertools, collections
from . import core, runner, smtlib, evalsmt, refs, families as F, scriptmc as S

# micro-pools (DESIGN appendix A): assertions whose subsets cross the sat/unsat border in many ways
POOLS = {
    'PROP': ['(or p q)', '(not p)', '(not q)', '(or (not p) r)', '(not r)', '(= p (not q))'],
    'QF_UF': ['(= a c)', '(distinct a b c)', '(or p (= a b))', '(not (= (f a) (f b)))', '(not p)', '(or (not p) (= b c))'],
    'QF_LRA': ['(> x 1)', '(<= (* 2 x) 2)', '(or p (< x y))', '(or (not p) (< x 0))', '(>= x (+ y 1))'],
    'QF_LIA': ['(and (<= 0 x) (<= x 5) (= x (* 2 y)))', '(= (mod x 2) 1)', '(> x y)', '(or (> y x) (< x 0))', '(and (<= 0 z) (<= z 9) (= (+ (* 2 x) (* 2 z)) 7))'],
    'QF_IDL': ['(<= (- x y) (- 1))', '(<= (- y x) 0)', '(<= (- y z) (- 1))', '(< (- z x) 2)', '(or (<= (- z x) 1) (<= (- z x) 2147483648))'],
    'QF_RDL': ['(< (- x y) 0)', '(<= (- y x) 0)', '(<= (- y z) (/ 1 2))', '(or (< (- z x) 0) (<= (- z x) (- (/ 1 2))))', '(> (- y x) 3)'],
    'QF_UFLRA': ['(<= x y)', '(<= y x)', '(not (= (f x) (f y)))', '(or (> (f x) 0) p)', '(< (f y) 0)'],
    'QF_UFLIA': ['(< x (+ y 1))', '(< y (+ x 1))', '(not (= (f x) (f y)))', '(or (> (f x) 0) p)', '(< (f y) 0)'],
    'QF_AX': ['(= b (store a i e))', '(not (= (select b i) e))', '(not (= (select b j) (select a j)))', '(not (= i j))', '(or (= a b) (= i j))'],
    'QF_ALIA': ['(= b (store a i 5))', '(> (select b i) 5)', '(not (= (select b j) (select a j)))', '(< i j)', '(or (= a b) (> i j))'],
    'QF_UFIDL': ['(<= (- x y) 0)', '(<= (- y x) 0)', '(not (= (f x) (f y)))', '(or (< (- (f x) (f y)) 0) p)', '(P x)'],
    'QF_UFRDL': ['(<= (- x y) 0)', '(<= (- y x) 0)', '(not (= (f x) (f y)))', '(or (< (- (f x) (f y)) 0) p)', '(not (P y))'],
}


def pool_structure(famname, k):
    """sat/unsat structure of the first k pool assertions per the reference layer: (n_unsat_subsets, minimal cores)"""
    fam = F.FAMILIES[famname]; pool = POOLS[famname][:k]
    unsat = []
    for r in range(1, k + 1):
        for c in itertools.combinations(range(k), r):
            if refs.is_unsat(fam.logic, fam.decls, [pool[i] for i in c]): unsat.append(set(c))
    mins = [u for u in unsat if not any(v < u for v in unsat)]
    return len(unsat), [tuple(sorted(m)) for m in mins]


HIST_LOGICS_QUICK = ['PROP', 'QF_UF', 'QF_LRA', 'QF_LIA', 'QF_IDL', 'QF_RDL', 'QF_UFLRA', 'QF_AX']
HIST_LOGICS_ALL = list(POOLS.keys())


def enumerate_histories(k, L, with_query=True, push2=False):
    """ALL command sequences of length <= L over {push, pop, assert 0..k-1, check, query} that (a) never pop
    below the base level and (b) end in check or query (every history is a prefix of one of these)."""
    alpha = ['push', 'pop'] + ['a%d' % i for i in range(k)] + ['check'] + (['query'] if with_query else [])
    if push2: alpha += ['push2', 'pop2']
    out = []
    def rec(seq, depth, nchecks):
        if seq and seq[-1] in ('check', 'query'):
            out.append(tuple(seq))
        if len(seq) == L: return
        for c in alpha:
            if c == 'pop' and depth < 1: continue
            if c == 'pop2' and depth < 2: continue
            if c == 'query' and nchecks == 0: continue
            d = depth + {'push': 1, 'pop': -1, 'push2': 2, 'pop2': -2}.get(c, 0)
            seq.append(c)
            rec(seq, d, nchecks + (c == 'check'))
            seq.pop()
    rec([], 0, 0)
    return out


class RefStack:
    """reference model of the assertion stack"""

    def __init__(self):
        self.frames = [[]]

    def apply(self, c):
        if c == 'push': self.frames.append([])
        elif c == 'push2': self.frames.append([]); self.frames.append([])
        elif c == 'pop': self.frames.pop()
        elif c == 'pop2': self.frames.pop(); self.frames.pop()
        elif c.startswith('a'): self.frames[-1].append(int(c[1:]))

    def active(self):
        return [i for fr in self.frames for i in fr]

    def state(self):
        return tuple(tuple(fr) for fr in self.frames)


MARK = '(echo "@@")'


def split_marked(out):
    """stdout pieces between the echo markers"""
    return out.split('@@\n')


def render(fam, pool, hist, opts, query_text, named=False, models=True):
    """script text for one history; every command is followed by a marker so that answers can be attributed"""
    s = []
    if models and fam.models: s.append('(set-option :produce-models true)')
    s.append(S.opt_text(opts))
    s.append('(set-logic %s)' % fam.logic); s.append(fam.decls); s.append(fam.defs); s.append(MARK)
    cnt = 0
    for c in hist:
        if c == 'push': s.append('(push 1)')
        elif c == 'pop': s.append('(pop 1)')
        elif c == 'push2': s.append('(push 2)')
        elif c == 'pop2': s.append('(pop 2)')
        elif c == 'check': s.append('(check-sat)')
        elif c == 'query': s.append(query_text)
        else:
            i = int(c[1:])
            if named:
                s.append('(assert (! %s :named h%d_%d))' % (pool[i], i, cnt)); cnt += 1
            else:
                s.append('(assert %s)' % pool[i])
        s.append(MARK)
    return '\n'.join(s)


def answers(fam, pool, hist, out):
    """[(position, reference stack (active indices), stack state, answer text)] for every check in hist"""
    pieces = split_marked(out)
    ref = RefStack(); res = []
    for k, c in enumerate(hist):
        ref.apply(c)
        piece = pieces[k + 1].strip() if k + 1 < len(pieces) else None
        res.append((k, c, ref.active(), ref.state(), piece))
    return res


def query_for(opts, fam):
    if 'itp' in opts: return None   # needs names; handled by the caller
    if 'cores' in opts or 'mincores' in opts or 'fullcores' in opts: return '(get-unsat-core)'
    if 'proofs' in opts: return '(get-proof)'
    return '(get-model)' if fam.models else '(get-info :name)'


def hist_task(task):
    """judge every check-sat of every history in the slice with the monitor of `prop` (C01/C02/C03)"""
    prop, famname, L, opts, start, step = task[:6]
    k = task[6] if len(task) > 6 else 4
    fam = F.FAMILIES[famname]; pool = POOLS[famname][:k]
    res = core.new_result(); cov = res['cov']
    w = S.worker()
    hs = enumerate_histories(len(pool), L, with_query=(k == 4))
    q = '(get-model)' if fam.models else '(get-info :name)'
    for hist in hs[start::step]:
        if 'lookahead' in opts and 'push' in hist:
            # known divergence (C30 finding pure-lookahead-after-push): every such run would only burn its time limit
            cov['skipped_known_divergence'] += 1; continue
        script = render(fam, pool, hist, opts, q)
        r = w.run(script, timeout=5)
        cov['executions'] += 1; cov['transitions'] += len(hist)
        if r.timeout or r.crash:
            cov['timeouts_or_crashes'] += 1; continue
        ans = answers(fam, pool, hist, r.out)
        for k, c, active, state, piece in ans:
            res['states'].append((famname, state))
            if piece is None: continue
            asserts = [pool[i] for i in active]
            akey = (famname, 'hist', tuple(sorted(set(asserts))))
            if c == 'check':
                cov['checks'] += 1
                if prop == 'C01' and piece == 'unsat':
                    res['distinct'].append(akey)
                    if refs.find_model(fam.logic, fam.decls, asserts, fam.defs) is not None:
                        _hist_violation(res, fam, opts, hist, k, script, 'wrong_unsat', 'unsat answered in a history whose active assertions have a certified model', piece)
                elif prop == 'C02' and piece == 'sat':
                    # certificate: the model printed by a following query, if any; else the references
                    nxt = ans[k + 1] if k + 1 < len(ans) else None
                    if nxt and nxt[1] == 'query' and fam.models and nxt[4] and not S.is_error(nxt[4]):
                        reason, _ = S.check_model(fam, asserts, nxt[4])
                        if reason is None:
                            cov['models_certified'] += 1; res['distinct'].append(akey); continue
                    res['distinct'].append(akey)
                    if refs.is_unsat(fam.logic, fam.decls, asserts, fam.defs):
                        _hist_violation(res, fam, opts, hist, k, script, 'wrong_sat', 'sat answered in a history whose active assertions z3 and cvc5 refute', piece)
            elif c == 'query' and prop == 'C03' and fam.models:
                # a model is printed only if the last check said sat and nothing invalidated it
                if piece and not S.is_error(piece) and piece.startswith('('):
                    res['distinct'].append(akey)
                    reason, _ = S.check_model(fam, asserts, piece)
                    cov['models_checked'] += 1
                    if reason is not None and _model_is_current(hist, k):
                        _hist_violation(res, fam, opts, hist, k, script, 'bad_model', reason, piece)
        if len(res['samples']) < 1: res['samples'].append({'history': list(hist), 'stdout': r.out[:200]})
    return res


def _model_is_current(hist, k):
    """get-model is judged only when it directly follows a check-sat (possibly with queries between):
    after a later assert/push/pop the solver is free to keep answering with the old model or to refuse"""
    j = k - 1
    while j >= 0 and hist[j] == 'query': j -= 1
    return j >= 0 and hist[j] == 'check'


def _hist_violation(res, fam, opts, hist, k, script, symptom, what, piece):
    def pred(x):
        pieces = split_marked(x.out)
        return k + 1 < len(pieces) and pieces[k + 1].strip() == piece
    if S.confirm(script, (), pred):
        rec = {'logic': fam.logic, 'family': fam.name, 'options': sorted(opts), 'engine': S.engine_of(opts), 'symptom': symptom, 'what': what[:300],
               'history_shape': ','.join(x if not x.startswith('a') else 'assert' for x in hist[:k + 1]), 'input_class': 'history'}
        res['violations'].append((rec, script, 'smt2'))
    else:
        res['cov']['unconfirmed_in_fresh_process'] += 1


def run_stage_histories(chk, prop, tier):
    fams = HIST_LOGICS_QUICK if tier == 'quick' else HIST_LOGICS_ALL
    if prop == 'C03': fams = [f for f in fams if F.FAMILIES[f].models]
    L = 5
    tasks = [(prop, f, L, (), s, 4) for f in fams for s in range(4)]
    chk.run_stage('histories L<=%d, 4-assertion micro-pools, default options' % L, tasks, hist_task)
    if prop != 'C03':
        tasks = [(prop, f, 7, (), s, 8, 3) for f in fams for s in range(8)]
        chk.run_stage('histories L<=7 over {push,pop,assert x3,check}, 3-assertion micro-pools, default options', tasks, hist_task)
        tasks = [(prop, f, 8, (), s, 8, 2) for f in fams for s in range(8)]
        chk.run_stage('histories L<=8 over {push,pop,assert x2,check}, 2-assertion micro-pools, default options', tasks, hist_task)
        tasks = [(prop, f, 8, ('proofs',), s, 8, 2) for f in fams for s in range(8)]
        chk.run_stage('histories L<=8, 2-assertion micro-pools, per-partition preprocessing (:produce-proofs)', tasks, hist_task)
    if tier == 'thorough':
        if prop != 'C03':
            tasks = [(prop, f, 9, (), s, 32, 2) for f in fams for s in range(32)]
            chk.run_stage('histories L<=9, 2-assertion micro-pools, default options', tasks, hist_task)
        tasks = [(prop, f, 6, (), s, 32) for f in fams for s in range(32)]
        chk.run_stage('histories L<=6, 4-assertion micro-pools, default options', tasks, hist_task)
        if prop != 'C03':
            for o in ('proofs', 'itp'):
                tasks = [(prop, f, 7, (o,), s, 8, 3) for f in fams for s in range(8)]
                chk.run_stage('histories L<=7, 3-assertion micro-pools, option %s' % o, tasks, hist_task)
        for o in ('lookahead', 'ghost', 'proofs', 'cores', 'itp'):
            tasks = [(prop, f, 5, (o,), s, 4) for f in fams for s in range(4)]
            chk.run_stage('histories L<=5, option %s' % o, tasks, hist_task)
