"""C22: theory-solver verdicts depend only on the asserted literals (harness/tsolvermc.cc).
All operation sequences up to a depth bound over {assert +-a_i, complete check, incomplete check, take a deduction,
backtrack k} on the real Theory/THandler stack, each prefix replayed on a fresh stack; verdicts, conflicts,
deductions and reasons are judged against (1) a reference table of theory-consistency for all 3^6 partial
assignments computed by the reference layer and (2) a fresh stack given the same literal set."""
import itertools, os, subprocess
from . import core, runner, refs, chk_native as N

KINDS = {
    'lra': ('QF_LRA', '(declare-fun x () Real)(declare-fun y () Real)(declare-fun z () Real)'),
    'lia': ('QF_LIA', '(declare-fun x () Int)(declare-fun y () Int)(declare-fun z () Int)'),
    'idl': ('QF_LIA', '(declare-fun x () Int)(declare-fun y () Int)(declare-fun z () Int)'),
    'rdl': ('QF_LRA', '(declare-fun x () Real)(declare-fun y () Real)(declare-fun z () Real)'),
    'uf': ('QF_UF', '(declare-sort U 0)(declare-fun a () U)(declare-fun b () U)(declare-fun c () U)(declare-fun f (U) U)(declare-fun P (U) Bool)'),
    'ax': ('QF_AX', '(declare-sort I 0)(declare-sort E 0)(declare-fun a () (Array I E))(declare-fun b () (Array I E))(declare-fun i () I)(declare-fun j () I)(declare-fun e () E)'),
}
# 'uflra' (UFLATheory) is not driven here: the combination needs the purification and interface equalities that the
# preprocessor and the SAT engine provide; driving the bare stack produced spurious conflicts (harness misuse, not a finding).
# The combination is covered end-to-end by C01/C02/C11.


def make_table(binary, kind, path):
    out = subprocess.run([binary, 'atoms', kind], capture_output=True, text=True, timeout=60).stdout
    atoms = [ln.split('\t')[2] for ln in out.split('\n') if ln.startswith('ATOM\t')]
    logic, decls = KINDS[kind]
    n = len(atoms); stats = {'consistent': 0, 'inconsistent': 0, 'undecided': 0}
    with open(path, 'w') as f:
        for vs in itertools.product('012', repeat=n):
            lits = [atoms[i] if v == '1' else '(not %s)' % atoms[i] for i, v in enumerate(vs) if v != '0']
            if not lits: r = 0
            elif refs.find_model(logic, decls, lits) is not None: r = 0
            elif refs.is_unsat(logic, decls, lits): r = 1
            else: r = 2
            stats[('consistent', 'inconsistent', 'undecided')[r]] += 1
            f.write('%s %d\n' % (''.join(vs), r))
    return atoms, stats


def run(prop, tier):
    chk = N.NativeCheck('C22', tier, 'model_checking',
                        'per theory (LRA, LIA, IDL, RDL, EUF, arrays, UF+LRA) a pool of 6 atoms; ALL sequences up to depth D over {assert +-a_i (unassigned), check(complete), check(incomplete), take one deduction and assert it, backtrack k<=depth}, '
                        'each prefix replayed on a fresh Theory/TermMapper/THandler stack (the free alphabet of the property; a verdict only reachable by asserting after a failed assert or backtracking into an unchecked batch is tagged free-only); '
                        'oracle: reference table of theory-consistency for all 729 partial assignments (z3 model certified by the exact evaluator / z3+cvc5 refutation) and a fresh stack given the same set; '
                        'inconsistent => set inconsistent, complete check consistent => set consistent (not LIA), conflicts are inconsistent subsets of the asserted set, deductions entailed, reasons entailing subsets; '
                        'states = distinct (theory, literal set, conflict flag), transitions = operations replayed')
    chk.assumptions = ['reference layer as in C01 for the 729-entry tables', 'the harness drives THandler::assertLits/check/backtrack/getConflict/getDeduction/getReason as CoreSMTSolver does']
    binary = runner.harness('rel', 'tsolvermc')
    depth = 5 if tier == 'quick' else 6
    tabdir = runner.scratch()
    for kind in KINDS:
        path = os.path.join(tabdir, 'table_%s.txt' % kind)
        atoms, stats = make_table(binary, kind, path)
        chk.extra.setdefault('reference_tables', {})[kind] = stats
        res = N.run_shards(binary, ['run', kind, depth, path], 15, 3000)
        before = len(chk.violations)
        N.absorb(chk, res, 'rel', replay_hint='build/rel/harness/tsolvermc run %s %d <table> 0 1   (atoms: %s)' % (kind, depth, atoms))
        for rec, _, _ in chk.violations[before:]:
            rec['logic'] = kind
        chk.bounds_done.append({'stage': 'theory %s, depth %d' % (kind, depth), 'shards': 15})
        if chk.out_of_time(): chk.exhaustive = False; break
    chk.cov['transitions'] = chk.cov['sequences']
    chk.cov['executions'] = chk.cov['sequences']
    chk.cov['traces_validated'] = chk.cov['sequences']
    chk.distinct_count = len(chk.states)
    chk.extra['oracle'] = dict(refs.stats)
    return chk.finish()
