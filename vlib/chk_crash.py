"""C18: the executable never crashes and signals every input problem.  Three exhaustively enumerated input spaces
are run through the real main() of the ASan+UBSan build (in-process worker; file mode):
  (1) term shapes: every application of the operator alphabet to leaves of ANY sort (ill-sorted, non-linear,
      division by zero, out-of-logic), depth 1 and depth 2 with one nested argument, in assert / define-fun /
      get-value position, under each logic;
  (2) command orders: every sequence up to a length bound over a command alphabet with valid and invalid forms;
  (3) token mutations: every single-token deletion, duplication, swap and replacement (by each token of a lexical
      alphabet) of a set of seed scripts that together use every command.
Oracle: no signal / uncaught exception / sanitizer report / hang without check-sat; a diagnostic on standard output
if and only if the exit status is non-zero; inputs that are faulty by construction (unbalanced, surely ill-sorted,
non-Boolean assertion) must produce a diagnostic."""
import itertools, re
from . import core, runner, smtlib, scriptmc as S

# ---------------------------------------------------------------------------------------------------------
# observation -> symptom
DIAG = re.compile(r'^\(error|yntax error|^At line|^At interactive', re.M)


def signature(r):
    err = r.err or ''
    m = re.search(r"terminate called after throwing an instance of '([^']+)'", err)
    if m:
        w = re.search(r'what\(\):\s*(.*)', err)
        w = w.group(1) if w else ''
        w = re.sub(r'\(.*\)|\'[^\']*\'|"[^"]*"|[0-9]+', '', w)
        w = re.sub(r'(?<=[Tt]erm )\S+|(?<=symbol )\S+|(?<=sort )\S+', '', w)
        return 'exception:%s:%s' % (m.group(1), ' '.join(w.split())[:50])
    frame = re.search(r'#\d+ 0x[0-9a-f]+ in (.+?) \S*/src/(\S+?):\d+', err)
    fn = (frame.group(1).split('(')[0] + '@' + frame.group(2)) if frame else '?'
    m = re.search(r'runtime error: ([a-z -]+)', err)
    if m: return 'ubsan:%s:%s' % (' '.join(m.group(1).split()[:4]), fn)
    m = re.search(r'ERROR: AddressSanitizer: (\S+)', err)
    if m: return 'asan:%s:%s' % (m.group(1), fn)
    return r.crash or ('exit %s' % r.status)


def symptom(r, has_check, faulty):
    """None if the run is fine, else (symptom, site, text)"""
    if r.timeout:
        if has_check: return None          # non-termination of check-sat is C30's business
        return ('hang', 'no_check_sat', 'no check-sat in the script, still running after the time limit')
    diag = bool(DIAG.search(r.out))
    if r.status in (98, 99):      # sanitizer exit codes (SAN_ENV)
        return ('crash', signature(r), 'sanitizer report; stderr: %s' % ' | '.join(r.err.strip().split('\n')[:3])[:300])
    if r.crash:
        if r.crash == 'exit 1':
            # exit(1) from inside the run: a deliberate exit; judged like a returned status 1
            if diag: return None
            return ('status_nonzero_without_diagnostic', 'exit(1):' + ' '.join(re.sub(r'\(triggered.*', '', r.err).split()[:6]), 'exit status 1 and nothing on standard output says why; stderr: %s' % r.err[:150])
        return ('crash', signature(r), '%s; stderr: %s' % (r.crash, ' | '.join(r.err.strip().split('\n')[:3])[:300]))
    if diag and r.status == 0:
        first = DIAG.search(r.out).group(0)
        return ('diagnostic_with_status_0', 'syntax' if 'yntax' in r.out or 'At line' in r.out else 'error', 'a diagnostic was printed (%s...) but the exit status is 0' % r.out.strip().split('\n')[0][:80])
    if not diag and r.status != 0:
        return ('status_nonzero_without_diagnostic', 'status %s' % r.status, 'exit status %s and no diagnostic on standard output' % r.status)
    if faulty and not diag:
        return ('accepted_faulty_input', faulty, 'input is faulty by construction (%s) but no diagnostic was printed; stdout: %s' % (faulty, r.out.strip()[:100]))
    return None


def judge(res, w, script, space, logic, faulty=None, timeout=5, extra=None, var='rel'):
    cov = res['cov']
    has_check = '(check-sat' in script
    r = w.run(script, timeout=timeout if has_check else 2)
    cov['executions'] += 1
    if r.timeout: cov['timeouts'] += 1
    sy = symptom(r, has_check, faulty)
    out_class = ('crash' if r.crash and r.crash != 'exit 1' else 'timeout' if r.timeout else 'diag' if DIAG.search(r.out) else 'clean', r.status)
    cov['class_%s_%s' % out_class] += 1
    if sy is None: return r
    s, site, text = sy
    cov['anomaly_' + s] += 1
    def pred(x, s=s, site=site):
        y = symptom(x, has_check, faulty)
        return y is not None and y[0] == s and y[1] == site
    if not S.confirm(script, (), pred, variant=var, cls=(s, site, var)):
        # the in-process worker exits where the executable returns; compare on the symptom only
        cov['unconfirmed_in_fresh_process'] += 1
        return r
    rec = {'logic': logic, 'symptom': s, 'site': site, 'input_class': space, 'options': [], 'build': var, 'what': text}
    if extra: rec.update(extra)
    res['violations'].append((rec, script, 'smt2'))
    return r


# ---------------------------------------------------------------------------------------------------------
# space 1: term shapes
LOGICS = {
    # logic: (declarations, leaves by class, arithmetic class or None)
    'QF_UF': ('(declare-sort U 0)(declare-fun a () U)(declare-fun b () U)(declare-fun f (U) U)(declare-fun g (U U) Bool)(declare-fun p () Bool)',
              {'a': 'U', 'b': 'U', 'p': 'B', 'true': 'B', '0': '?', '1.5': '?'}, {'f': (['U'], 'U'), 'g': (['U', 'U'], 'B')}),
    'QF_LRA': ('(declare-fun x () Real)(declare-fun y () Real)(declare-fun p () Bool)',
               {'x': 'N', 'y': 'N', 'p': 'B', 'true': 'B', '0': 'N', '1.5': 'N', '(- 1)': 'N'}, {}),
    'QF_LIA': ('(declare-fun x () Int)(declare-fun y () Int)(declare-fun p () Bool)',
               {'x': 'N', 'y': 'N', 'p': 'B', 'true': 'B', '0': 'N', '2': 'N', '1.5': '?', '(- 1)': 'N'}, {}),
    'QF_IDL': ('(declare-fun x () Int)(declare-fun y () Int)(declare-fun p () Bool)',
               {'x': 'N', 'y': 'N', 'p': 'B', '0': 'N', '2': 'N', '(- 1)': 'N'}, {}),
    'QF_RDL': ('(declare-fun x () Real)(declare-fun y () Real)(declare-fun p () Bool)',
               {'x': 'N', 'y': 'N', 'p': 'B', '0': 'N', '1.5': 'N'}, {}),
    'QF_AX': ('(declare-sort I 0)(declare-sort E 0)(declare-fun m () (Array I E))(declare-fun i () I)(declare-fun e () E)(declare-fun p () Bool)',
              {'m': 'A', 'i': 'I', 'e': 'E', 'p': 'B', '0': '?'}, {}),
    'QF_UFLIA': ('(declare-fun x () Int)(declare-fun y () Int)(declare-fun f (Int) Int)(declare-fun g (Int Int) Bool)(declare-fun p () Bool)',
                 {'x': 'N', 'y': 'N', 'p': 'B', '0': 'N', '2': 'N', '1.5': '?'}, {'f': (['N'], 'N'), 'g': (['N', 'N'], 'B')}),
    'QF_UFLRA': ('(declare-fun x () Real)(declare-fun y () Real)(declare-fun f (Real) Real)(declare-fun p () Bool)',
                 {'x': 'N', 'y': 'N', 'p': 'B', '0': 'N', '1.5': 'N'}, {'f': (['N'], 'N')}),
    'QF_ALIA': ('(declare-fun m () (Array Int Int))(declare-fun x () Int)(declare-fun y () Int)(declare-fun p () Bool)',
                {'m': 'AN', 'x': 'N', 'y': 'N', 'p': 'B', '0': 'N', '2': 'N'}, {}),
    'QF_AUFLIRA': ('(declare-fun x () Int)(declare-fun r () Real)(declare-fun m () (Array Int Real))(declare-fun f (Int) Real)(declare-fun p () Bool)',
                   {'x': '?', 'r': '?', 'm': '?', 'p': 'B', '0': '?', '1.5': '?'}, {'f': (['?'], '?')}),
    'ALL': ('(declare-sort U 0)(declare-fun a () U)(declare-fun x () Int)(declare-fun r () Real)(declare-fun f (U) Int)(declare-fun p () Bool)',
            {'a': 'U', 'x': '?', 'r': '?', 'p': 'B', '0': '?', '1.5': '?'}, {'f': (['U'], '?')}),
}
OPS = {'+': 2, '-': 2, '*': 2, '/': 2, 'div': 2, 'mod': 2, '<': 2, '<=': 2, '>=': 2, '=': 2, 'distinct': 2, 'ite': 3, 'and': 2, 'or': 2, 'not': 1, '=>': 2, 'xor': 2,
       'select': 2, 'store': 3, 'f': 1, 'g': 2, 'abs': 1, 'to_real': 1}
UNARY_TOO = ['-', '+', 'and', '=', 'distinct', 'f']        # additionally applied to one and to three arguments (arity problems)


def cls(op, args, funs):
    """class of (op args) under a lenient reading, 'X' if surely ill-sorted, '?' if unknown"""
    if 'X' in args: return 'X'
    k = len(args)
    def all_in(c): return all(a in (c, '?') for a in args)
    if op in ('and', 'or', '=>', 'xor'): return 'B' if all_in('B') else 'X'
    if op == 'not': return 'B' if k == 1 and all_in('B') else 'X'
    if op in ('+', '-', '*', '/', 'div', 'mod', 'abs', 'to_real'): return ('N' if 'N' in args else '?') if all_in('N') else 'X'
    if op in ('<', '<=', '>='): return 'B' if k == 2 and all_in('N') else 'X'
    if op in ('=', 'distinct'):
        if k < 2: return 'X'
        known = set(a for a in args if a != '?')
        return 'B' if len(known) <= 1 else 'X'
    if op == 'ite':
        if k != 3 or args[0] not in ('B', '?'): return 'X'
        known = set(a for a in args[1:] if a != '?')
        return (known.pop() if len(known) == 1 else '?') if len(known) <= 1 else 'X'
    if op == 'select':
        if k != 2: return 'X'
        if args[0] == 'A': return 'E' if args[1] in ('I', '?') else 'X'
        if args[0] == 'AN': return 'N' if args[1] in ('N', '?') else 'X'
        return '?' if args[0] == '?' else 'X'
    if op == 'store':
        if k != 3: return 'X'
        if args[0] == 'A': return 'A' if args[1] in ('I', '?') and args[2] in ('E', '?') else 'X'
        if args[0] == 'AN': return 'AN' if args[1] in ('N', '?') and args[2] in ('N', '?') else 'X'
        return '?' if args[0] == '?' else 'X'
    if op in funs:
        sig, ret = funs[op]
        if k != len(sig): return 'X'
        return ret if all(a in (s, '?') or s == '?' for a, s in zip(args, sig)) else 'X'
    return '?'       # operator not of this logic: rejected or not, not our call (C29)


def terms(logic, depth2):
    decls, leaves, funs = LOGICS[logic]
    ls = list(leaves.items())
    d1 = []
    for op, ar in OPS.items():
        arities = [ar] + ([1, 3] if op in UNARY_TOO else [])
        for k in set(arities):
            for args in itertools.product(ls, repeat=k):
                d1.append(('(%s %s)' % (op, ' '.join(a for a, _ in args)), cls(op, [c for _, c in args], funs)))
    out = list(d1)
    if depth2:
        # one nested argument: every depth-1 term in every argument position, the other arguments from two leaves per class
        small = []
        seen = set()
        for l, c in ls:
            if c not in seen: seen.add(c); small.append((l, c))
        for op, ar in OPS.items():
            for pos in range(ar):
                for inner, ic in d1:
                    for rest in itertools.product(small, repeat=ar - 1):
                        args = list(rest[:pos]) + [(inner, ic)] + list(rest[pos:])
                        out.append(('(%s %s)' % (op, ' '.join(a for a, _ in args)), cls(op, [c for _, c in args], funs)))
    return out


SORT_OF = {'B': 'Bool', 'N': None, 'U': 'U', 'A': '(Array I E)', 'AN': '(Array Int Int)', 'I': 'I', 'E': 'E'}


def term_task(t):
    logic, depth2, start, step, var, positions = t
    decls, leaves, funs = LOGICS[logic]
    res = core.new_result(); cov = res['cov']
    w = S.worker(var)
    head = '(set-option :produce-models true)(set-logic %s)%s' % (logic, decls)
    arith = 'Int' if ('Int' in decls and 'Real' not in decls) else 'Real'
    for term, c in itertools.islice(terms(logic, depth2), start, None, step):
        faulty = 'ill-sorted term' if c == 'X' else None
        # assert position
        judge(res, w, head + '(assert %s)(check-sat)' % term, 'term_shape', logic, faulty or ('non-Boolean assertion' if c not in ('B', '?') else None), var=var)
        if positions > 1:
            # definition + use, and get-value after a check
            srt = SORT_OF.get(c) or arith
            judge(res, w, head + '(define-fun d () %s %s)(assert (= d d))(check-sat)' % (srt, term), 'term_shape', logic, faulty, var=var)
            judge(res, w, head + '(assert p)(check-sat)(get-value (%s))' % term, 'term_shape', logic, faulty, var=var)
            judge(res, w, head + '(push 1)(assert (! %s :named n))(check-sat)(pop 1)(check-sat)' % term, 'term_shape', logic, faulty, var=var)
        res['distinct'].append((logic, term))
        if len(res['samples']) < 1: res['samples'].append({'logic': logic, 'term': term, 'class': c})
    return res


# ---------------------------------------------------------------------------------------------------------
# space 2: command orders
CMDS = [
    '(set-logic QF_LRA)', '(set-logic QF_UF)', '(set-logic NOPE)',
    '(set-option :produce-models true)', '(set-option :produce-unsat-cores true)', '(set-option :produce-interpolants true)', '(set-option :produce-proofs true)',
    '(set-option :produce-models 7)', '(set-option :random-seed x)', '(set-option :verbosity 0)',
    '(declare-fun x () Real)', '(declare-fun x () Bool)', '(declare-fun q () Bool)', '(declare-sort S 0)', '(declare-fun s () S)', '(declare-const c Real)',
    '(define-fun d () Real (+ x 1))', '(define-fun e ((z Real)) Bool (> z x))', '(define-fun d () Bool x)',
    '(assert (> x 0))', '(assert (! (< x 0) :named n))', '(assert (! (> x 1) :named n))', '(assert q)', '(assert (e 1))', '(assert false)',
    '(check-sat)', '(push 1)', '(pop 1)', '(pop 2)', '(push -1)', '(push 2)',
    '(get-model)', '(get-value (x))', '(get-value (u))', '(get-unsat-core)', '(get-interpolants n q)', '(get-interpolants n)', '(get-proof)', '(get-assignment)',
    '(get-info :status)', '(get-info :nope)', '(get-option :produce-models)', '(set-info :status sat)', '(echo "e")', '(exit)', '(reset)', '(simplify)', '(check-sat-assuming (q))',
]
CORE_CMDS = [0, 3, 4, 5, 6, 10, 12, 16, 17, 19, 20, 21, 22, 23, 25, 26, 27, 28, 31, 32, 34, 35, 37, 38]     # thorough: length 4 over this subset


def order_task(t):
    L, subset, start, step, var = t
    res = core.new_result(); cov = res['cov']
    w = S.worker(var)
    ix = subset if subset is not None else range(len(CMDS))
    for seq in itertools.islice(itertools.product(ix, repeat=L), start, None, step):
        script = '\n'.join(CMDS[i] for i in seq)
        judge(res, w, script, 'command_order', 'QF_LRA', var=var)
        res['distinct'].append(seq)
        res['states'].append(seq[:-1])
        cov['transitions'] += L
        if len(res['samples']) < 1: res['samples'].append({'script': script})
    return res


# ---------------------------------------------------------------------------------------------------------
# space 3: token mutations
SEEDS = [
    '(set-option :produce-models true)\n(set-logic QF_LRA)\n(declare-fun x () Real)\n(declare-fun y () Real)\n(assert (and (> x 0) (< (+ x y) 1.5)))\n(check-sat)\n(get-model)\n(get-value (x (+ x y)))\n(exit)',
    '(set-option :produce-unsat-cores true)\n(set-logic QF_UF)\n(declare-sort U 0)\n(declare-fun a () U)\n(declare-fun f (U) U)\n(assert (! (= (f a) a) :named n1))\n(assert (! (distinct (f (f a)) a) :named n2))\n(check-sat)\n(get-unsat-core)',
    '(set-option :produce-interpolants true)\n(set-logic QF_LIA)\n(declare-fun x () Int)\n(declare-const y Int)\n(assert (! (> x (* 2 y)) :named A))\n(assert (! (< x (- y 3)) :named B))\n(assert (! (> y 0) :named C))\n(check-sat)\n(get-interpolants A (and B C))',
    '(set-logic QF_UF)\n(declare-fun p () Bool)\n(declare-fun |q r| () Bool)\n(define-fun d ((z Bool)) Bool (or z p))\n(push 1)\n(assert (let ((w (d |q r|))) (not w)))\n(check-sat)\n(pop 1)\n(assert (ite p |q r| (not p)))\n(check-sat)\n(echo "done ; (")',
    '(set-option :produce-proofs true)\n(set-info :status unsat)\n(set-logic QF_AX)\n(declare-sort I 0)\n(declare-sort E 0)\n(declare-fun m () (Array I E))\n(declare-fun i () I)\n(declare-fun e () E)\n(assert (not (= (select (store m i e) i) e)))\n(check-sat)\n(get-info :name)',
    '(set-option :produce-assignments true)\n(set-logic QF_IDL)\n(declare-fun x () Int)\n(declare-fun y () Int)\n(assert (! (<= (- x y) 3) :named c1))\n(assert (<= (- y x) (- 4)))\n(check-sat)\n(get-assignment)\n(get-option :produce-assignments)',
]
TOKENS = ['(', ')', '((', '))', '|', '"', ';', '\\', '#x1F', '#b101', '1234567890123456789012345678901234567890', '0', '1.5', '-1', '00', '.5', 'x', 'nosuch', 'Bool', 'Real', 'true',
          'let', 'assert', 'check-sat', '!', ':named', ':nope', '_', 'as', 'par', 'forall', '(- 1)', '(/ 1 0)', '(* x x)', '(ite x x x)', '""', '||', '\xe9', '\t', '']


def mutants(seed):
    toks = smtlib.tokenize(seed)
    n = len(toks)
    def join(ts): return ' '.join(ts)
    for i in range(n):
        yield ('delete', join(toks[:i] + toks[i + 1:]))
        yield ('duplicate', join(toks[:i + 1] + toks[i:]))
        if i + 1 < n: yield ('swap', join(toks[:i] + [toks[i + 1], toks[i]] + toks[i + 2:]))
        for t in TOKENS:
            if t != toks[i]: yield ('replace', join(toks[:i] + [t] + toks[i + 1:]))
        for t in ('(', ')', '"', '|', ';'):
            yield ('insert', join(toks[:i] + [t] + toks[i:]))


def pair_mutants(seed):
    """thorough: every pair of single-token replacements inside one command (structural tokens only)"""
    toks = smtlib.tokenize(seed)
    small = ['(', ')', '|', '"', '0', 'x', '!', ':named', '']
    # command boundaries
    depth = 0; startp = 0; spans = []
    for i, t in enumerate(toks):
        if t == '(':
            if depth == 0: startp = i
            depth += 1
        elif t == ')':
            depth -= 1
            if depth == 0: spans.append((startp, i + 1))
    for a, b in spans:
        for i in range(a, b):
            for j in range(i + 1, b):
                for t1 in small:
                    for t2 in small:
                        ts = list(toks); ts[i] = t1; ts[j] = t2
                        yield ('pair', ' '.join(ts))


def balanced(script):
    try:
        smtlib.parse_all(script)
        return True
    except (smtlib.ParseError, RecursionError, IndexError):
        return False


def mutant_task(t):
    si, pairs, start, step, var = t
    res = core.new_result(); cov = res['cov']
    w = S.worker(var)
    seed = SEEDS[si]
    logic = re.search(r'set-logic (\S+)\)', seed).group(1)
    gen = pair_mutants(seed) if pairs else mutants(seed)
    for kind, script in itertools.islice(gen, start, None, step):
        faulty = None if balanced(script) else 'unbalanced or lexically broken text'
        judge(res, w, script, 'token_mutation', logic, faulty, extra={'mutation': kind}, var=var)
        res['distinct'].append(script)
        if len(res['samples']) < 1: res['samples'].append({'seed': si, 'mutation': kind, 'script': script[:200]})
    return res


# ---------------------------------------------------------------------------------------------------------
ASAN_LOGICS = ['QF_UF', 'QF_LRA', 'QF_AX']


def run(prop, tier):
    chk = core.Check('C18', tier, 'exploration',
                     'three exhaustively enumerated input spaces through the real main(): (1) every application of 23 operators to leaves of any sort (depth 1 in four command positions; thorough: depth 2 with one nested argument in assert position) under 11 logics; '
                     '(2) every command sequence up to the length bound (3; thorough 4 over 24 commands) over a 48-command alphabet with valid and invalid forms; (3) every single-token delete/duplicate/swap/insert/replace-by-each-of-40-tokens mutant of 6 seed scripts covering every command '
                     '(thorough: every pair of structural replacements inside one command). All of it on the plain build (signals, uncaught exceptions, exit status, diagnostics); a stated subspace again on the ASan+UBSan build (memory errors, undefined behaviour); distinct = distinct inputs')
    chk.assumptions = ['"faulty by construction" is decided by vlib/smtlib.py (balanced text) and a lenient sort-class checker (vlib/chk_crash.cls) that only says ill-sorted when every reading is',
                       'hangs are only judged for scripts without check-sat (C30 covers check-sat)', 'uncaught exceptions carry no stack: their site is exception type + message skeleton',
                       'the sanitizer build runs ~400 scripts/s on this machine whatever the number of cores (every solver start maps and poisons several MB), which bounds the sanitizer subspace of the quick tier']
    runner.build('rel'); runner.harness('rel', 'osmt_worker')
    runner.build('asan'); runner.harness('asan', 'osmt_worker')
    logics = list(LOGICS)
    n = 4
    R, A = 'rel', 'asan'
    chk.run_stage('term shapes depth 1, 4 positions, %d logics' % len(logics), [(lg, False, s, n, R, 4) for lg in logics for s in range(n)], term_task)
    chk.run_stage('command orders, length<=3 (all %d commands)' % len(CMDS), [(L, None, s, 4, R) for L in (1, 2) for s in range(4)] + [(3, None, s, 64, R) for s in range(64)], order_task)
    chk.run_stage('single-token mutants of %d seeds x %d tokens' % (len(SEEDS), len(TOKENS)), [(si, False, s, 8, R) for si in range(len(SEEDS)) for s in range(8)], mutant_task)
    chk.run_stage('sanitizer build: term shapes depth 1 in assert position (%s)' % ', '.join(ASAN_LOGICS), [(lg, False, s, 8, A, 1) for lg in ASAN_LOGICS for s in range(8)], term_task)
    chk.run_stage('sanitizer build: command orders, length<=2', [(L, None, s, 16, A) for L in (1, 2) for s in range(16)], order_task)
    chk.run_stage('sanitizer build: single-token mutants of seeds 0-1', [(si, False, s, 16, A) for si in range(2) for s in range(16)], mutant_task)
    if tier == 'thorough':
        chk.run_stage('term shapes depth 2 (one nested argument), assert position', [(lg, True, s, 32, R, 1) for lg in logics for s in range(32)], term_task)
        chk.run_stage('command orders, length 4 over %d core commands' % len(CORE_CMDS), [(4, CORE_CMDS, s, 128, R) for s in range(128)], order_task)
        chk.run_stage('pairs of structural token replacements inside one command', [(si, True, s, 64, R) for si in range(len(SEEDS)) for s in range(64)], mutant_task)
        chk.run_stage('sanitizer build: term shapes depth 1, 4 positions, all logics', [(lg, False, s, 16, A, 4) for lg in logics for s in range(16)], term_task)
        chk.run_stage('sanitizer build: single-token mutants of seeds 2-5', [(si, False, s, 16, A) for si in range(2, 6) for s in range(16)], mutant_task)
        chk.run_stage('sanitizer build: command orders, length 3', [(3, None, s, 128, A) for s in range(128)], order_task)
    return chk.finish()
