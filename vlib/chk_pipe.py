"""C20: pipe mode and file mode produce identical results.  Every script of a lexical family (sequences of commands
with strings, quoted symbols and comments containing parentheses, semicolons and quotes, under every separator
choice) is run through the real main() in file mode and in pipe mode under every chunking of standard input within
a deviation bound (the harness serves read(0, ...) according to a split plan)."""
import itertools
from . import core, runner, scriptmc as S

HEAD = '(set-logic QF_UF)'
POOL = [
    '(echo "plain")', '(echo "a(b")', '(echo "x;)(")', '(echo "q""r")', '(echo "a\\"b")', '(echo "|")', '(echo "back\\\\slash")',
    '(declare-fun |a(b| () Bool)', '(declare-fun |x;y| () Bool)', '(declare-fun |q"r| () Bool)', '(declare-fun |two\nlines| () Bool)', '(declare-fun p () Bool)',
    '(assert |a(b|)', '(assert (or p |x;y|))', '(set-info :source |a ; b ( c "|)', '(set-info :status sat)', '(check-sat)', '(get-info :name)', '(exit)',
    '(push 1)', '(get-option :produce-models)',
]
SEPS = ['', ' ', '\n', ' ; comment ) ( " |\n', '\n;;\n']
TAILS = ['', '\n', '; trailing comment without newline ) "', ' ']


def scripts(tier):
    out = []
    n = len(POOL)
    seqs = [(i,) for i in range(n)] + [(i, j) for i in range(n) for j in range(n)]
    if tier == 'thorough':
        core_ix = [1, 2, 4, 7, 8, 9, 12, 14, 16, 18]
        seqs += [(i, j, k) for i in core_ix for j in core_ix for k in core_ix]
    for sq in seqs:
        for sep in SEPS:
            for tail in (TAILS if len(sq) == 1 or sep == ' ' else TAILS[:2]):
                out.append(HEAD + sep + sep.join(POOL[i] for i in sq) + tail)
    return out


def plans(n, tier):
    """chunking plans: deviation 0 (no split), 1 (one split after any byte), byte-at-a-time, block sizes around the buffer doublings"""
    ps = [()]
    ps += [(k,) for k in range(1, n)]
    ps.append(tuple(range(1, n)))
    for b in (15, 16, 17, 31, 32, 33, 63, 64):
        if b < n: ps.append(tuple(range(b, n, b)))
    if tier == 'thorough':
        ps += [(a, b) for a in range(1, n) for b in range(a + 1, n)]
    return ps


def task(t):
    tier, start, step = t
    res = core.new_result(); cov = res['cov']
    w = S.worker()
    for script in scripts(tier)[start::step]:
        f = w.run(script, timeout=5)
        cov['executions'] += 1
        if f.timeout or f.crash: cov['file_mode_crash_or_timeout_left_to_C18'] += 1; continue
        if 'yntax error' in f.out:
            cov['out_of_scope_syntax_error'] += 1; continue
        cov['scripts_in_scope'] += 1
        res['distinct'].append(script)
        n = len(script)
        seen = None
        for plan in plans(n, tier):
            p = w.run(script, pipe=True, splits=plan, timeout=5)
            cov['executions'] += 1; cov['pipe_runs'] += 1
            obs = (p.out, p.status, bool(p.crash), bool(p.timeout))
            if obs == (f.out, f.status, False, False): continue
            if seen is not None and seen == obs[:2] and len(plan) == 1: continue     # same wrong output under another single split: one report per script
            kind = 'every_chunking' if plan == () else 'chunking_dependent'
            # confirm in a fresh harness process (same plan) twice
            ok = True
            for _ in range(2):
                w2 = runner.Worker('rel'); p2 = w2.run(script, pipe=True, splits=plan, timeout=5); f2 = w2.run(script, timeout=5); w2.close()
                if (p2.out, p2.status) != (p.out, p.status) or (f2.out, f2.status) != (f.out, f.status): ok = False
            if not ok: cov['unconfirmed_in_fresh_process'] += 1; continue
            seen = obs[:2]
            feat = 'string_backslash_quote' if '\\"' in script else ('exit_with_trailing_text' if '(exit)' in script else ('comment' if ';' in script else 'other'))
            rec = {'logic': 'QF_UF', 'options': [], 'symptom': 'pipe_file_diff', 'site': kind, 'input_class': feat,
                   'what': 'file mode: status %s stdout %r; pipe mode (splits %s): status %s stdout %r%s' % (f.status, f.out[:120], list(plan)[:6], p.status, p.out[:120], ' CRASH' if p.crash else '')}
            res['violations'].append((rec, script + '\n;; splits: %s\n' % (list(plan),), 'smt2'))
            if plan == (): break
        if len(res['samples']) < 1: res['samples'].append({'script': script, 'file_stdout': f.out[:100], 'plans': len(plans(n, tier))})
    return res


def run(prop, tier):
    chk = core.Check('C20', tier, 'fault_enumeration',
                     'scripts: every sequence of <=2 (thorough: <=3 over a sub-pool) commands from a pool of 21 lexically tricky commands (echo strings with ( ) ; | "" \\", quoted symbols with parentheses/semicolons/quotes/newlines, set-info, exit followed by text) '
                     'x 5 separators (nothing, space, newline, comments containing ) ( " |) x tails (incl. a comment without final newline); in scope iff file mode reports no syntax error; '
                     'chunkings of standard input: no split, one split after every byte, byte-at-a-time, blocks of 15/16/17/31/32/33/63/64 bytes (thorough: every pair of splits); oracle: stdout bytes and exit status equal file mode; distinct = scripts in scope')
    chk.assumptions = ['read(0, ...) of the real interpPipe is served by the harness (harness/osmt_worker.cc) according to the split plan; a short read is the only environment deviation modelled']
    runner.build('rel'); runner.harness('rel', 'osmt_worker')
    n = 32
    chk.run_stage('lexical family x chunking plans', [(tier, s, n) for s in range(n)], task)
    return chk.finish()
