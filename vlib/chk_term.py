"""C14 (term constructors return equivalent terms), C27 (integer rounding is exact), C28 (equal terms share one
identity, subterms come first): harness/termmc.cc, plus script-level enumerations for C27 (div/mod elimination
axioms through the solver, negation of integer difference constraints)."""
import itertools
from . import core, runner, smtlib, evalsmt, scriptmc as S, chk_native as N

FLAVOURS = ['bool', 'lra', 'lia', 'uf', 'ax']


def run_c14(tier):
    chk = N.NativeCheck('C14', tier, 'exploration',
                        'for each logic flavour (Boolean, LRA, LIA, UF, arrays): every type-correct application of every constructor (and/or/not/xor/=>/ite/=/distinct, + - neg * / div mod, <= < >= >, select/store, UF application; binary and ternary forms) '
                        'to leaves (variables and constants incl. 0, +-1, 2^31-1, 2^31, -2^31, 2^63, 1/2, -3/2, true/false) and, at depth 2, to every nested argument tuple with one nested argument (thorough: both); '
                        'the returned term is evaluated structurally and compared with the operator applied to the evaluated arguments under every assignment of a value grid; distinct = constructions')
    chk.no_sum = ('envs', 'level1_terms')
    chk.assumptions = ['the 150-line structural evaluator in harness/termmc.cc is the SMT-LIB semantics of the operators', 'equivalence is established on the value grid, not symbolically']
    binary = runner.harness('rel', 'termmc')
    for fl in FLAVOURS:
        res = N.run_shards(binary, ['c14', fl, tier], 16, 3000)
        N.absorb(chk, res, 'rel', replay_hint='build/rel/harness/termmc c14 %s %s <shard> 16' % (fl, tier))
        chk.bounds_done.append({'stage': 'flavour %s' % fl, 'shards': 16})
    chk.cov['executions'] = chk.cov['evaluations']
    chk.distinct_count = chk.cov['constructions']
    return chk.finish()


def run_c28(tier):
    chk = N.NativeCheck('C28', tier, 'exploration',
                        'all construction sequences of length <= L (quick 3, thorough 4) over 9 constructors (and, or, =, not, +, <=, *, f(.), ite) with arguments drawn from the terms existing so far (6 leaves), each on a fresh logic; '
                        'oracle: every child reference is smaller than its parent, equal structure => equal reference, rebuilding a step returns the same reference, and/or/+/* are insensitive to argument order; distinct = sequences')
    chk.assumptions = ['PTRef order is creation order (terms are allocated sequentially)']
    binary = runner.harness('rel', 'termmc')
    res = N.run_shards(binary, ['c28', tier], 16, 3000)
    N.absorb(chk, res, 'rel', replay_hint='build/rel/harness/termmc c28 %s <shard> 16' % tier)
    chk.cov['executions'] = chk.cov['sequences'] + chk.cov['sequences_with_swapped_commutative_arguments']
    chk.distinct_count = chk.cov['sequences']
    return chk.finish()


# ---- C27 script-level parts -------------------------------------------------------------------------
def ediv(a, n):
    return a // n if n > 0 else -(a // -n)


def c27_task(t):
    kind, items = t
    res = core.new_result(); cov = res['cov']
    w = S.worker()
    for it in items:
        if kind == 'divmod':
            tval, n = it
            q = ediv(tval, n); r = tval - n * q
            num = lambda v: str(v) if v >= 0 else '(- %d)' % -v
            base = '(set-option :produce-models true)(set-logic QF_LIA)(declare-fun x () Int)(declare-fun q () Int)(declare-fun r () Int)(assert (= x %s))(assert (= q (div x %s)))(assert (= r (mod x %s)))' % (num(tval), num(n), num(n))
            s1 = base + '(check-sat)(get-value (q r))'
            s2 = base + '(assert (not (and (= q %s) (= r %s))))(check-sat)' % (num(q), num(r))
            for script, want in ((s1, 'sat'), (s2, 'unsat')):
                r_ = w.run(script, timeout=10)
                cov['executions'] += 1
                b = S.blocks(r_.out)
                res['distinct'].append((kind, it, want))
                if r_.crash or r_.timeout or not b: cov['timeouts_or_crashes'] += 1; continue
                bad = None
                if b[0] != want: bad = 'expected %s, got %s' % (want, b[0])
                elif want == 'sat' and len(b) > 1:
                    try:
                        vals = {p[0]: evalsmt.ev(p[1], {}, {}) for p in smtlib.parse_one(b[1])}
                        if vals.get('q') != q or vals.get('r') != r: bad = 'q=%s r=%s, Euclidean division gives q=%d r=%d' % (vals.get('q'), vals.get('r'), q, r)
                    except Exception as e:
                        bad = 'unreadable values %s' % b[1][:80]
                if bad and S.confirm(script, (), lambda x: S.blocks(x.out)[:1] == b[:1]):
                    rec = {'logic': 'QF_LIA', 'options': [], 'symptom': 'rounding:divmod-elimination', 'site': 'DivModRewriter', 'what': 'x=%d, n=%d: %s' % (tval, n, bad)}
                    res['violations'].append((rec, script, 'smt2'))
        else:   # negation of integer difference constraints: kind 'idlneg'
            c = it
            num = lambda v: str(v) if v >= 0 else '(- %d)' % -v
            for logic in ('QF_IDL', 'QF_LIA'):
                head = '(set-logic %s)(declare-fun x () Int)(declare-fun y () Int)' % logic
                cases = [('(assert (not (<= (- x y) %s)))(assert (<= (- x y) %s))' % (num(c), num(c + 1)), 'sat'),
                         ('(assert (not (<= (- x y) %s)))(assert (<= (- x y) %s))' % (num(c), num(c)), 'unsat'),
                         ('(assert (not (<= (- x y) %s)))(assert (< (- x y) %s))' % (num(c), num(c + 1)), 'unsat'),
                         ('(assert (not (< (- x y) %s)))(assert (< (- x y) %s))' % (num(c), num(c + 1)), 'sat'),
                         ('(assert (not (>= (- x y) %s)))(assert (> (- x y) %s))' % (num(c), num(c - 2)), 'sat'),
                         ('(assert (not (>= (- x y) %s)))(assert (> (- x y) %s))' % (num(c), num(c - 1)), 'unsat')]
                for body, want in cases:
                    script = head + body + '(check-sat)'
                    r_ = w.run(script, timeout=10)
                    cov['executions'] += 1
                    b = S.blocks(r_.out)
                    res['distinct'].append((logic, c, body))
                    if r_.crash or r_.timeout or not b: cov['timeouts_or_crashes'] += 1; continue
                    if b[0] == 'unknown': cov['unknown'] += 1; continue     # constants beyond the solver's integer range
                    if b[0] != want and S.confirm(script, (), lambda x: S.blocks(x.out)[:1] == b[:1]):
                        rec = {'logic': logic, 'options': [], 'symptom': 'rounding:difference-negation', 'site': 'negate', 'what': 'c=%d: %s answered %s, expected %s' % (c, body, b[0], want)}
                        res['violations'].append((rec, script, 'smt2'))
        if len(res['samples']) < 1: res['samples'].append({'script': script, 'stdout': r_.out[:100]})
    return res


def run_c27(tier):
    chk = N.NativeCheck('C27', tier, 'exploration',
                        '(a) every atom a*x + b*y REL c (a,b in -4..4 (thorough -6..6), REL in <=,<,=,>=,>, c in -12..12 and word/long boundaries, two syntactic forms) built on Int terms and evaluated on x,y in [-8,8] and boundaries against the untransformed meaning; '
                        '(b) constant folding of div/mod for t in [-40,40] and boundaries, n in [-9,9] minus 0 and boundaries; (c) the div/mod elimination through the solver: x=t, q=(div x n), r=(mod x n) must be sat with exactly the Euclidean (q,r) and unsat otherwise; '
                        '(d) negation of integer difference constraints not(x-y<=c) etc. for c over boundary constants, under QF_IDL and QF_LIA; distinct = atoms + folds + script cases')
    chk.assumptions = ['Python / GMP integers are the reference', 'the identities are checked on the stated ranges plus word/long boundaries, not for all integers']
    binary = runner.harness('rel', 'termmc'); runner.harness('rel', 'osmt_worker')
    res = N.run_shards(binary, ['c27', tier], 16, 3000)
    N.absorb(chk, res, 'rel', replay_hint='build/rel/harness/termmc c27 %s <shard> 16' % tier)
    ts = list(range(-40, 41)) + [s * v for v in (2 ** 31 - 1, 2 ** 31, 2 ** 31 + 1, 2 ** 32, 2 ** 63, 2 ** 64 + 1) for s in (1, -1)]
    ns = [n for n in range(-9, 10) if n] + [s * v for v in (2 ** 31, 2 ** 31 + 1, 2 ** 32 + 1) for s in (1, -1)]
    pairs = [(t, n) for t in ts for n in ns]
    if tier == 'quick': pairs = [(t, n) for t in ts if abs(t) <= 12 or abs(t) > 40 for n in ns]
    chk.run_stage('div/mod elimination through the solver (%d (t,n) pairs x 2 scripts)' % len(pairs), [('divmod', pairs[i::16]) for i in range(16)], c27_task)
    cs = [0, 1, -1, 7, -7, 2 ** 31 - 1, 2 ** 31, -2 ** 31, -2 ** 31 - 1, 2 ** 32, 2 ** 53, 2 ** 53 + 1, 2 ** 62, 2 ** 63 - 2, 2 ** 63 - 1, -2 ** 63 + 1, -2 ** 63, 2 ** 63, 2 ** 64]
    chk.run_stage('negation of integer difference constraints (%d constants x 2 logics x 6 cases)' % len(cs), [('idlneg', cs[i::8]) for i in range(8)], c27_task)
    chk.cov['executions'] += chk.cov['evaluations']
    chk.distinct_count = chk.cov['atoms'] + chk.cov['folds'] + len(chk.distinct)
    return chk.finish()


def run(prop, tier):
    return {'C14': run_c14, 'C27': run_c27, 'C28': run_c28}[prop](tier)
