"""Reference layer: z3 and cvc5 as oracles for ground facts about tiny formulas, with certification of
sat answers by the exact evaluator (evalsmt).  Verdicts: 'SAT' (certified model), 'UNSAT' (z3 and cvc5
both say unsat), 'UNDECIDED' (anything else; callers must skip, never alarm)."""
import re
from fractions import Fraction
import z3, cvc5
from . import smtlib, evalsmt
from .evalsmt import Abs, Arr

TIMEOUT_MS = 2000
_cache = {}
stats = {'queries': 0, 'cache_hits': 0, 'sat': 0, 'unsat': 0, 'undecided': 0, 'uncertified_sat': 0, 'disagree': 0}

_DOT = re.compile(r'(?<![\w|@!~.\-])(\.[A-Za-z_][\w.!\-]*)')


def quote_dotted(s):
    """z3/cvc5 reject simple symbols starting with '.'; quote them"""
    return _DOT.sub(r'|\1|', s)


class Z3Model:
    """python view of a z3 model: funs dict usable by evalsmt"""

    def __init__(self, model, decls):
        self.m = model
        self.univ = {}   # Abs -> z3 expr
        self.funs = {}
        for d in decls:
            name = d.name()
            if d.arity() == 0:
                v = self.to_py(model.eval(d(), model_completion=True))
                self.funs[name] = (lambda v=v: (lambda args: v))()
            else:
                self.funs[name] = self._mkfun(d)

    def _mkfun(self, d):
        memo = {}
        def f(args):
            k = tuple(evalsmt.key(a) for a in args)
            if k in memo: return memo[k]
            zargs = [self.to_z3(a, d.domain(i)) for i, a in enumerate(args)]
            r = self.to_py(self.m.eval(d(*zargs), model_completion=True))
            memo[k] = r
            return r
        return f

    def to_z3(self, v, sort):
        if isinstance(v, bool): return z3.BoolVal(v, sort.ctx)
        if isinstance(v, (int, Fraction)):
            if sort.kind() == z3.Z3_INT_SORT: return z3.IntVal(evalsmt.as_int(v), sort.ctx)
            return z3.RealVal(str(Fraction(v)), sort.ctx)
        if isinstance(v, Abs):
            if v in self.univ: return self.univ[v]
            raise evalsmt.EvalError('unknown universe element')
        if isinstance(v, Arr):
            a = z3.K(sort.domain(), self.to_z3(v.default, sort.range()))
            for k, x in v.m.items():
                a = z3.Store(a, self.to_z3(k, sort.domain()), self.to_z3(x, sort.range()))
            return a
        raise evalsmt.EvalError('cannot convert %r' % (v,))

    def to_py(self, e):
        if z3.is_true(e): return True
        if z3.is_false(e): return False
        if z3.is_int_value(e): return e.as_long()
        if z3.is_rational_value(e): return Fraction(e.numerator_as_long(), e.denominator_as_long())
        k = e.sort().kind()
        if k == z3.Z3_UNINTERPRETED_SORT and z3.is_const(e):
            a = Abs(str(e), str(e.sort()))
            self.univ[a] = e
            return a
        if k == z3.Z3_ARRAY_SORT:
            if z3.is_K(e): return Arr(self.to_py(e.arg(0)))
            if z3.is_store(e):
                base = self.to_py(e.arg(0))
                return base.store(self.to_py(e.arg(1)), self.to_py(e.arg(2)))
            if z3.is_as_array(e):
                fi = self.m[z3.get_as_array_func(e)]
                els = fi.else_value()
                arr = Arr(self.to_py(els))
                for i in range(fi.num_entries()):
                    en = fi.entry(i)
                    arr = arr.store(self.to_py(en.arg_value(0)), self.to_py(en.value()))
                return arr
        raise evalsmt.EvalError('cannot interpret z3 value %s' % e)


_ctx = [None, 0]


def _context():
    """one z3 context per process, renewed every 300 queries (creating one costs ~8 ms)"""
    if _ctx[0] is None or _ctx[1] >= 300:
        _ctx[0] = z3.Context(); _ctx[1] = 0
    _ctx[1] += 1
    return _ctx[0]


def _z3_check(text, want_model):
    ctx = _context()
    s = z3.Solver(ctx=ctx)
    s.set('timeout', TIMEOUT_MS)
    try:
        s.from_string(text)
        r = s.check()
    except z3.Z3Exception as e:
        return 'error', str(e)[:200]
    if r == z3.unsat: return 'unsat', None
    if r == z3.sat:
        if not want_model: return 'sat', None
        try:
            m = s.model()
            # declarations: collect from the assertions
            decls = {}
            seen = set()
            def walk(e):
                stack = [e]
                while stack:
                    x = stack.pop()
                    if x.get_id() in seen: continue
                    seen.add(x.get_id())
                    if z3.is_app(x):
                        d = x.decl()
                        if d.kind() == z3.Z3_OP_UNINTERPRETED: decls[d.name()] = d
                        stack.extend(x.children())
            for a in s.assertions(): walk(a)
            for d in m.decls():
                if d.name() not in decls: decls[d.name()] = d
            return 'sat', Z3Model(m, list(decls.values()))
        except (z3.Z3Exception, evalsmt.EvalError) as e:
            return 'sat', None
    return 'unknown', None


def _cvc5_check(logic, text):
    try:
        tm = cvc5.TermManager()
        s = cvc5.Solver(tm)
        s.setOption('tlimit-per', str(TIMEOUT_MS))
        p = cvc5.InputParser(s)
        p.setStringInput(cvc5.InputLanguage.SMT_LIB_2_6, '(set-logic %s)' % logic + text + '(check-sat)', 'q')
        sm = p.getSymbolManager()
        res = 'unknown'
        while True:
            c = p.nextCommand()
            if c.isNull(): break
            out = c.invoke(s, sm).strip()
            if out in ('sat', 'unsat', 'unknown'): res = out
            elif out.startswith('(error'): return 'error'
        return res
    except Exception as e:
        return 'error'


_CVC5_LOGIC = {'QF_BOOL': 'QF_UF', 'QF_RDL': 'QF_LRA', 'QF_IDL': 'QF_LIA', 'QF_UFRDL': 'QF_UFLRA', 'QF_UFIDL': 'QF_UFLIA',
               'ALL': 'QF_AUFLIRA', 'QF_AUFLIRA': 'QF_AUFLIRA'}


def _key(logic, decls, assertions, defs):
    return (logic, decls, defs, tuple(sorted(set(assertions))))


_mcache = {}
_ucache = {}


def find_model(logic, decls, assertions, defs=''):
    """a model certified by evalsmt (funs dict) or None.  None means only 'no certified model found'."""
    key = _key(logic, decls, assertions, defs)
    stats['queries'] += 1
    if key in _mcache:
        stats['cache_hits'] += 1
        return _mcache[key][1]
    body = quote_dotted(decls + defs + ''.join('(assert %s)' % a for a in key[3]))
    r, model = _z3_check(body, True)
    out = (r, None)
    if r == 'sat':
        ok = False
        if model is not None:
            try:
                funs = dict(model.funs)
                _add_defs(defs, funs)
                ok = all(evalsmt.ev(smtlib.parse_one(a), {}, funs) is True for a in key[3])
            except (evalsmt.EvalError, smtlib.ParseError, z3.Z3Exception, RecursionError, KeyError):
                ok = False
        if ok:
            out = (r, model.funs); stats['sat'] += 1
        else:
            stats['uncertified_sat'] += 1
    _mcache[key] = out
    return out[1]


def is_unsat(logic, decls, assertions, defs=''):
    """True iff z3 and cvc5 both answer unsat (UNSAT*); False means only 'not established'."""
    key = _key(logic, decls, assertions, defs)
    stats['queries'] += 1
    if key in _ucache:
        stats['cache_hits'] += 1
        return _ucache[key]
    body = quote_dotted(decls + defs + ''.join('(assert %s)' % a for a in key[3]))
    if key in _mcache:
        r = _mcache[key][0]
    else:
        r, _ = _z3_check(body, False)
    res = False
    if r == 'unsat':
        c = _cvc5_check(_CVC5_LOGIC.get(logic, logic), body)
        if c == 'unsat':
            res = True; stats['unsat'] += 1
        elif c == 'sat':
            stats['disagree'] += 1
    _ucache[key] = res
    return res


def verdict(logic, decls, assertions, defs=''):
    """('SAT', funs) | ('UNSAT', None) | ('UNDECIDED', None)"""
    m = find_model(logic, decls, assertions, defs)
    if m is not None: return ('SAT', m)
    if is_unsat(logic, decls, assertions, defs): return ('UNSAT', None)
    stats['undecided'] += 1
    return ('UNDECIDED', None)


def _add_defs(defs, funs):
    if not defs: return
    for d in smtlib.parse_all(defs):
        if d[0] == 'define-fun':
            funs[d[1]] = evalsmt.make_fun(d[2], d[4], funs)


def certify(assertions, funs, defs=''):
    """True iff every assertion evaluates to true under funs (exact); raises nothing"""
    try:
        f = dict(funs); _add_defs(defs, f)
        for a in assertions:
            t = smtlib.parse_one(a) if isinstance(a, str) else a
            if evalsmt.ev(t, {}, f) is not True:
                return False
        return True
    except (evalsmt.EvalError, smtlib.ParseError, RecursionError, KeyError):
        return False
