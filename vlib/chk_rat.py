"""C15: rational arithmetic is exact in both representations (harness/ratmc.cc against GMP)."""
from . import core, runner, chk_native as N


def run(prop, tier):
    chk = N.NativeCheck('C15', tier, 'exploration',
                        'all ordered pairs of the ~1350 boundary rationals n/d (n,d from 55 integers bracketing 0, 2^15, 2^31, 2^32, 2^53, 2^63, 2^64 and primes) for + - * / += -= *= /= compare == != < <= > >= hash; '
                        'all of them for the unary operations under 5 preparation recipes (hidden word/mpq state); a 22-value sub-alphabet under all 25 recipe pairs; all integer pairs for gcd lcm fdiv_q % divexact under all recipe pairs; '
                        'all depth-2 in-place chains over the sub-alphabet; oracle: GMP value, canonical form, representation and hash of a freshly built equal value. '
                        'distinct = operand pairs (incl. recipes) + integer pairs + chains enumerated (all distinct by construction, all touching a boundary value)')
    chk.no_sum = ('boundary_integers', 'values', 'sub_alphabet')
    chk.assumptions = ['GMP (mpq_class/mpz functions) is the exact reference', 'operands outside the boundary set are not covered']
    binary = runner.harness('rel', 'ratmc')
    t = 'thorough' if tier == 'thorough' else 'quick'
    res = N.run_shards(binary, [t], 16 if tier == 'quick' else 64, 3000)
    N.absorb(chk, res, 'rel', replay_hint='replay: build/rel/harness/ratmc replay <op> <a> <b> <recipeA> <recipeB>')
    chk.bounds_done.append({'stage': 'rel build, tier %s' % t, 'shards': len(res)})
    # the same enumeration under ASan+UBSan (signed overflow, INT_MIN negation and INT_MIN % -1 are UB the sanitizer sees)
    if not chk.out_of_time():
        binary = runner.harness('asan', 'ratmc')
        res = N.run_shards(binary, ['quick'], 16, 3000)
        sub = N.NativeCheck('C15', tier, 'exploration', '')
        sub.no_sum = chk.no_sum
        N.absorb(sub, res, 'asan')
        chk.cov['ops_under_sanitizers'] = sub.cov['ops']
        # value failures are the same as in the rel build; keep only what the sanitizers add
        for rec, text, ext in sub.violations:
            if rec['symptom'] == 'harness_died': chk.violations.append((rec, text, ext))
        chk.bounds_done.append({'stage': 'asan+ubsan build, quick enumeration', 'shards': len(res)})
    else:
        chk.exhaustive = False
    chk.cov['executions'] = chk.cov['ops']
    chk.distinct_count = chk.cov['pairs'] + chk.cov['int_pairs'] + chk.cov['chains']
    return chk.finish()
