"""C21: names (:named) and definitions (define-fun) follow the assertion-stack scopes.
Explicit-state exploration of ALL command histories over a 13-command alphabet up to a length bound, with
:global-declarations off and on, against a Python reference of SMT-LIB scoping; formulas are propositional so
that every semantic question (sat? core unsat? assignment consistent?) is decided by a truth table."""
import itertools
from . import core, runner, smtlib, evalsmt, scriptmc as S, histories as H

VARS = ['p', 'q', 'r', 's']
DECLS = ''.join('(declare-fun %s () Bool)' % v for v in VARS)
# command -> (text, kind, payload)
CMDS = {
    'push': ('(push 1)', 'push', None),
    'pop': ('(pop 1)', 'pop', None),
    'NA0': ('(assert (! p :named a))', 'named', ('a', 'p', 'p')),
    'NA1': ('(assert (! (not p) :named a))', 'named', ('a', '(not p)', '(not p)')),
    'NC': ('(assert (! (or (not p) q) :named c))', 'named', ('c', '(or (not p) q)', '(or (not p) q)')),
    'NB': ('(assert (or (! p :named b) r))', 'nested', ('b', 'p', '(or p r)')),            # a second, nested, name for the term p
    'ND': ('(assert (! p :named d))', 'named', ('d', 'p', 'p')),                              # a second top-level name for the term p
    'UN': ('(assert p)', 'plain', 'p'),
    'DEF': ('(define-fun f ((x Bool)) Bool (or x s))', 'def', ('f', '(or %s s)')),
    'DEF2': ('(define-fun f ((x Bool)) Bool (and x (not s)))', 'def', ('f', '(and %s (not s))')),
    'USE': ('(assert (f (not q)))', 'use', ('f', '(not q)')),
    'check': ('(check-sat)', 'check', None),
    'core': ('(get-unsat-core)', 'core', None),
    'asg': ('(get-assignment)', 'asg', None),
}
ALPHA = list(CMDS.keys())


def enumerate_hist(L):
    out = []
    def rec(seq, depth):
        # every response of every command is judged, so only the maximal sequences are run (each covers all its prefixes)
        if len(seq) == L: out.append(tuple(seq)); return
        for c in ALPHA:
            if c == 'pop' and depth == 0: continue
            if c in ('core', 'asg') and 'check' not in seq: continue
            seq.append(c); rec(seq, depth + (c == 'push') - (c == 'pop')); seq.pop()
    rec([], 0)
    return out


def models(forms):
    """all assignments (dict) satisfying the list of formula texts"""
    sx = [smtlib.parse_one(f) for f in forms]
    out = []
    for bits in itertools.product([False, True], repeat=len(VARS)):
        env = dict(zip(VARS, bits))
        if all(evalsmt.ev(f, env, {}) is True for f in sx): out.append(env)
    return out


class Scope:
    """reference semantics"""
    def __init__(self, global_decls):
        self.g = global_decls
        self.frames = [{'names': {}, 'defs': {}, 'asserts': []}]   # names: name -> (term text, toplevel?)
        self.gnames = {}; self.gdefs = {}
    def names(self):
        d = dict(self.gnames)
        for fr in self.frames: d.update(fr['names'])
        return d
    def defs(self):
        d = dict(self.gdefs)
        for fr in self.frames: d.update(fr['defs'])
        return d
    def asserts(self):
        return [a for fr in self.frames for a in fr['asserts']]
    def apply(self, c):
        """returns True if the command must be rejected with an error"""
        text, kind, pl = CMDS[c]
        top = self.frames[-1]
        if kind == 'push': self.frames.append({'names': {}, 'defs': {}, 'asserts': []}); return False
        if kind == 'pop': self.frames.pop(); return False
        if kind in ('named', 'nested'):
            nm, term, assertion = pl
            if nm in self.names(): return True
            (self.gnames if self.g else top['names'])[nm] = (term, kind == 'named', assertion)
            top['asserts'].append((assertion, nm if kind == 'named' else None)); return False
        if kind == 'plain': top['asserts'].append((pl, None)); return False
        if kind == 'def':
            if pl[0] in self.defs(): return True
            (self.gdefs if self.g else top['defs'])[pl[0]] = pl[1]; return False
        if kind == 'use':
            if pl[0] not in self.defs(): return True
            top['asserts'].append((self.defs()[pl[0]] % pl[1], None)); return False
        return False
    def state(self):
        return (tuple((tuple(sorted(fr['names'])), tuple(sorted(fr['defs'].items())), tuple(fr['asserts'])) for fr in self.frames), tuple(sorted(self.gnames)), tuple(sorted(self.gdefs.items())))


def task(t):
    L, gdecl, start, step = t
    res = core.new_result(); cov = res['cov']
    w = S.worker()
    head = '(set-option :produce-unsat-cores true)(set-option :produce-assignments true)(set-option :produce-models true)' + ('(set-option :global-declarations true)' if gdecl else '') + '(set-logic QF_UF)' + DECLS + H.MARK
    for hist in enumerate_hist(L)[start::step]:
        script = head + ''.join(CMDS[c][0] + H.MARK for c in hist)
        r = w.run(script, timeout=5)
        cov['executions'] += 1; cov['transitions'] += len(hist)
        if r.timeout or r.crash:
            cov['timeouts_or_crashes'] += 1; continue
        pieces = r.out.split('@@\n')
        sc = Scope(gdecl)
        last_check = None; popped_unsat = False; unsat_seen_depth = None
        def viol(sym, what, pos):
            nm_ = sc.names()
            two = len(set(v[0] for v in nm_.values())) < len(nm_)     # one term carries two names that are in scope
            rec = {'logic': 'QF_UF', 'options': ['global-declarations'] if gdecl else [], 'symptom': sym, 'input_class': 'unsat_frame_popped' if popped_unsat else ('term_with_two_names' if two else 'plain'),
                   'what': ('after %s: %s' % (','.join(hist[:pos + 1]), what))[:400]}
            res['violations'].append((rec, script, 'smt2'))
        for pos, c in enumerate(hist):
            piece = pieces[pos + 1].strip() if pos + 1 < len(pieces) else ''
            kind = CMDS[c][1]
            must_reject = sc.apply(c)
            res['states'].append(sc.state())
            if kind == 'pop' and unsat_seen_depth is not None and len(sc.frames) < unsat_seen_depth:
                popped_unsat = True; unsat_seen_depth = None
            is_err = '(error' in piece
            if kind in ('named', 'nested', 'plain', 'def', 'use', 'push', 'pop'):
                last_check = None if kind != 'def' else last_check
                if must_reject and not is_err:
                    viol('scope:accepted_out_of_scope' if kind == 'use' else 'scope:duplicate_accepted', '%s accepted although the reference rejects it (%s)' % (CMDS[c][0], 'popped definition' if kind == 'use' else 'name in scope'), pos); break
                if not must_reject and is_err:
                    viol('scope:rejected_although_valid', '%s rejected: %s' % (CMDS[c][0], piece[:120]), pos); break
                continue
            tagged = sc.asserts(); forms = [a for a, _ in tagged]
            ms = models(forms)
            if kind == 'check':
                want = 'sat' if ms else 'unsat'
                cov['checks'] += 1
                res['distinct'].append((gdecl, tuple(forms), tuple(sorted(sc.names()))))
                if piece not in ('sat', 'unsat'):
                    viol('scope:check_sat_failed', 'check-sat answered %s' % piece[:100], pos); break
                if piece != want:
                    viol('scope:wrong_answer', 'check-sat answered %s, the reference stack %s is %s' % (piece, forms, want), pos); break
                last_check = piece
                if piece == 'unsat': unsat_seen_depth = len(sc.frames)
                continue
            if is_err or not piece: continue
            if piece == ')': piece = '()'     # get-assignment without any name prints a lone ')': a printing defect left to C17
            try:
                sx = smtlib.parse_one(piece)
            except smtlib.ParseError:
                viol('scope:unparsable_answer', piece[:100], pos); break
            names = sc.names()
            if kind == 'core' and last_check == 'unsat':
                cov['cores'] += 1
                bad = [n for n in sx if not (isinstance(n, str) and n in names and names[n][1])]
                if bad:
                    # the names that are in scope but label a nested occurrence of a term that is also asserted at top level
                    nested_alias = all(isinstance(n, str) and n in names and not names[n][1] and names[n][0] in forms for n in bad)
                    viol('scope:name:nested_alias' if nested_alias and not popped_unsat else 'scope:name:stale',
                         'unsat core %s mentions %s; top-level names in scope: %s' % (sx, bad, sorted(n for n in names if names[n][1])), pos); break
                core_forms = [a for a, n in tagged if n in sx]
                background = [a for a, n in tagged if n is None]
                if models(core_forms + background):
                    viol('scope:name:lost', 'unsat core %s + unnamed assertions %s is satisfiable (reference stack %s, names %s)' % (sx, background, forms, sorted(names)), pos); break
            elif kind == 'asg' and last_check == 'sat':
                cov['assignments'] += 1
                listed = {}
                for pair in sx:
                    if isinstance(pair, list) and len(pair) == 2: listed[pair[0]] = pair[1]
                stale = [n for n in listed if n not in names]
                if stale:
                    viol('scope:name:stale', 'get-assignment lists %s; names in scope: %s' % (stale, sorted(names)), pos); break
                lost = [n for n in names if n not in listed]
                if lost:
                    viol('scope:name:lost', 'get-assignment omits %s; names in scope: %s' % (lost, sorted(names)), pos); break
                # consistency: some model of the assertions gives the named terms the printed values
                ok = False
                for m in ms:
                    if all(listed[n] in ('true', 'false') and (evalsmt.ev(smtlib.parse_one(names[n][0]), m, {}) is True) == (listed[n] == 'true') for n in listed): ok = True; break
                if not ok:
                    viol('scope:assignment_inconsistent', 'get-assignment %s fits no model of %s' % (listed, forms), pos); break
        if len(res['samples']) < 1: res['samples'].append({'history': list(hist), 'stdout': r.out[:300]})
    return res


def run(prop, tier):
    chk = core.Check('C21', tier, 'model_checking',
                     'all command histories up to length L over {push, pop, 3 named asserts (two of them re-using one name), a nested :named, 2 unnamed asserts, 2 define-fun of the same symbol, a use of it, check-sat, get-unsat-core, get-assignment}, '
                     'with :global-declarations off and on; reference = Python scope machine (vlib/chk_scope.Scope) + truth tables over 4 Boolean variables; states = distinct reference scope states, transitions = commands; '
                     'distinct = distinct (mode, assertion stack, names in scope) at a check-sat')
    chk.assumptions = ['the reference scope machine is SMT-LIB 2.6 scoping of :named and define-fun (global-declarations: both persist)']
    runner.build('rel'); runner.harness('rel', 'osmt_worker')
    L = 5 if tier == "quick" else 6
    n = 16
    for g in (False, True):
        chk.run_stage('histories L<=%d, global-declarations %s' % (L, g), [(L, g, s, n) for s in range(n)], task)
    return chk.finish()
