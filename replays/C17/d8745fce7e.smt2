(set-logic QF_UF)(declare-sort U 0)(define-fun |x 1| () U
    (as @3 U))(define-fun |as| () U
    (as @2 U))(define-fun |let| ((x0 U)) U
    (ite (= (as @3 U) x0) (as @2 U) (as @d2 U)))(check-sat)