(set-logic QF_LRA)(define-fun | y| () Real
    (/ 3 2))(define-fun |assert| () Real
    0)(assert (= y (/ 3 2)))(assert (= assert 0))(assert (= (+  y assert) (/ 3 2)))(check-sat)