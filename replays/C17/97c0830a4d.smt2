(set-logic QF_LRA)(define-fun |let| () Real
    (/ 3 2))(define-fun |1x| () Real
    0)(assert (= let (/ 3 2)))(assert (= 1x 0))(assert (= (+ let 1x) (/ 3 2)))(check-sat)