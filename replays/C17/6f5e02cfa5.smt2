(set-logic QF_LRA)
(declare-fun |#z| () Real)
(declare-fun  () Real)
(declare-fun .frame1 () Bool)
(assert
(let ((?def0 (not (<= (- 1) (+ (* (- 1) |#z|) )))))

?def0
))
(push 1)
(assert
(let ((?def0 (not (<= 3 |#z|))))

?def0
))
(check-sat)
(exit)
