(set-logic QF_LRA)(define-fun |assert| () Real
    (/ 3 2))(define-fun |x 1| () Real
    0)(assert (= assert (/ 3 2)))(assert (= (+ assert x 1) (/ 3 2)))(check-sat)