(set-logic QF_LRA)(define-fun _ () Real
    (/ 3 2))(define-fun |check-sat| () Real
    0)(assert (> |_| (+ |check-sat| 1)))(assert (< |_| 3))(check-sat)