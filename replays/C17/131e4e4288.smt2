(set-logic QF_LRA)
(declare-fun |#z| () Real)
(declare-fun  () Real)
(declare-fun .frame1 () Bool)
(assert
(let ((?def0 (not (<= (- 1) (+ (* (- 1) |#z|) )))))

?def0
))
(assert
(let ((?def0 (not (<= 0 (+ |#z| (* (- 1) ))))))

?def0
))
(check-sat)
(exit)
