(set-logic QF_LRA)(define-fun |(| () Real
    (/ 3 2))(define-fun _ () Real
    0)(assert (> |(| (+ |_| 1)))(assert (< |(| 3))(check-sat)