(set-logic QF_UF)(declare-sort U 0)(define-fun | y| () U
    (as @3 U))(define-fun |(| () U
    (as @2 U))(define-fun x0 ((r0 U)) U
    (ite (= (as @3 U) r0) (as @2 U) (as @d2 U)))(check-sat)