(set-logic QF_LRA)(define-fun |x 1| () Real
    (/ 3 2))(define-fun @1 () Real
    0)(assert (= @1 0))(assert (= (+ x 1 @1) (/ 3 2)))(check-sat)