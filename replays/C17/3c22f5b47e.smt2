(set-logic QF_UF)(declare-sort |my sort| 0)(define-fun | y| () my sort
    (as @3 my sort))(define-fun x0 () my sort
    (as @2 my sort))(define-fun |f g| ((x!0 my sort)) my sort
    (ite (= (as @3 my sort) x!0) (as @2 my sort) (as @d2 my sort)))(check-sat)