(set-logic QF_LRA)(define-fun |(| () Real
    (/ 3 2))(define-fun _ () Real
    0)(check-sat)