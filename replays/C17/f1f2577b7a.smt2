(set-logic QF_UF)(declare-sort U 0)(define-fun x1 () U
    (as @3 U))(define-fun x0 () U
    (as @2 U))(define-fun f ((x!0 U)) U
    (ite (= (as @3 U) x!0) (as @2 U) (as @d2 U)))(check-sat)