(set-logic QF_LRA)(define-fun _ () Real
    (/ 3 2))(define-fun |#z| () Real
    0)(assert (> |_| (+ |#z| 1)))(assert (< |_| 3))(check-sat)