(set-logic QF_UF)
(declare-sort Real x 0)
(declare-fun .uf-not (Bool ) Bool)
(declare-fun ite (Bool |Real x| |Real x| ) |Real x|)
(declare-const (as @d2 |Real x|) () |Real x|)
(declare-fun x1 () |Real x|)
(declare-fun |x 1| () |Real x|)
(declare-fun f (|Real x| ) |Real x|)
(declare-fun .frame1 () Bool)
(assert
(let ((?def0 (= x1 |x 1|)))
(let ((?def1 (not ?def0)))

?def1
)))
(push 1)
(assert
(let ((?def0 (= |x 1| (f x1))))

?def0
))
(check-sat)
(exit)
