(set-logic QF_LRA)(define-fun |#z| () Real
    (/ 3 2))(define-fun | y| () Real
    0)(assert (= #z (/ 3 2)))(assert (= y 0))(assert (= (+ #z  y) (/ 3 2)))(check-sat)