(set-logic QF_LRA)(define-fun ! () Real
    (/ 3 2))(define-fun _ () Real
    0)(assert (= ! (/ 3 2)))(assert (= _ 0))(assert (= (+ ! _) (/ 3 2)))(check-sat)