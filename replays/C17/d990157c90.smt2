(set-logic QF_UF)(declare-sort |my sort| 0)(define-fun |x 1| () my sort
    (as @3 my sort))(define-fun .frame1 () my sort
    (as @2 my sort))(define-fun x0 ((r0 my sort)) my sort
    (ite (= (as @3 my sort) r0) (as @2 my sort) (as @d2 my sort)))(check-sat)