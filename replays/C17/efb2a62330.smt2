(set-logic QF_LRA)(define-fun |assert| () Real
    (/ 3 2))(define-fun x0 () Real
    0)(assert (= assert (/ 3 2)))(assert (= x0 0))(assert (= (+ assert x0) (/ 3 2)))(check-sat)