(set-logic QF_LRA)(define-fun |as| () Real
    (/ 3 2))(define-fun |assert| () Real
    0)(assert (= as (/ 3 2)))(assert (= assert 0))(assert (= (+ as assert) (/ 3 2)))(check-sat)