(set-logic QF_LRA)(define-fun |#z| () Real
    (/ 3 2))(define-fun  () Real
    0)(assert (> |#z| (+ || 1)))(assert (< |#z| 3))(check-sat)