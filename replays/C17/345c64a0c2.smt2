(set-logic QF_LRA)(define-fun x1 () Real
    (/ 3 2))(define-fun |1x| () Real
    0)(assert (= x1 (/ 3 2)))(assert (= 1x 0))(assert (= (+ x1 1x) (/ 3 2)))(check-sat)