(set-logic QF_UF)(declare-sort U 0)(declare-fun | y| () U)(declare-fun |a
b| () U)(declare-fun |f g| (U) U)(assert (distinct | y| |a
b|))(assert (= (|f g| | y|) |a
b|))(assert (= | y| (as @3 U)))(assert (= (|f g| |a
b|) (as @d2 U)))(check-sat)