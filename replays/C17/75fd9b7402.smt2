(set-logic QF_LRA)
(declare-fun (as @1 Real) () Real)
(declare-fun |par| () Real)
(declare-fun .frame1 () Bool)
(assert
(let ((?def0 (not (<= (- 1) (+ (* (- 1) (as @1 Real)) |par|)))))

?def0
))
(assert
(let ((?def0 (not (<= 0 (+ (as @1 Real) (* (- 1) |par|))))))

?def0
))
(check-sat)
(exit)
