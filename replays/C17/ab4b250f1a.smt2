(set-logic QF_LRA)(define-fun |"q"| () Real
    (/ 3 2))(define-fun |a;b| () Real
    0)(assert (= "q" (/ 3 2)))(assert (= a;b 0))(assert (= (+ "q" a;b) (/ 3 2)))(check-sat)