(set-logic QF_LRA)(define-fun |a;b| () Real
    (/ 3 2))(define-fun |par| () Real
    0)(assert (= a;b (/ 3 2)))(assert (= par 0))(assert (= (+ a;b par) (/ 3 2)))(check-sat)