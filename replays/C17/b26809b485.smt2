(set-logic QF_LRA)
(declare-fun |#z| () Real)
(declare-fun (as @1 Real) () Real)
(declare-fun .frame1 () Bool)
(assert
(let ((?def0 (not (<= (- 1) (+ (* (- 1) |#z|) (as @1 Real))))))

?def0
))
(assert
(let ((?def0 (not (<= 0 (+ |#z| (* (- 1) (as @1 Real)))))))

?def0
))
(check-sat)
(exit)
