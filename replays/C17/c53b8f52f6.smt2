(set-logic QF_LRA)(define-fun |"q"| () Real
    (/ 3 2))(define-fun |:k| () Real
    0)(assert (= "q" (/ 3 2)))(assert (= :k 0))(assert (= (+ "q" :k) (/ 3 2)))(check-sat)