(set-logic QF_UF)
(declare-sort |my sort| 0)
(declare-fun .uf-not (Bool ) Bool)
(declare-fun ite (Bool |my sort| |my sort| ) |my sort|)
(declare-const (as @d2 |my sort|) () |my sort|)
(declare-fun x1 () |my sort|)
(declare-fun |(| () |my sort|)
(declare-fun f (|my sort| ) |my sort|)
(declare-fun .frame1 () Bool)
(assert
(let ((?def0 (= x1 |(|)))
(let ((?def1 (not ?def0)))

?def1
)))
(assert
(let ((?def0 (= (f x1) (f |(|))))
(let ((?def1 (not ?def0)))

?def1
)))
(check-sat)
(exit)
