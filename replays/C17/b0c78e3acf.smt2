(set-logic QF_LRA)(define-fun |x 1| () Real
    (/ 3 2))(define-fun x1 () Real
    0)(assert (= x1 0))(assert (= (+ x 1 x1) (/ 3 2)))(check-sat)