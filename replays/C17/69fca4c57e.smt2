(set-logic QF_LRA)
(declare-fun |x 1| () Real)
(declare-fun (as @1 Real) () Real)
(declare-fun .frame1 () Bool)
(assert
(let ((?def0 (not (<= (- 1) (+ (* (- 1) |x 1|) (as @1 Real))))))

?def0
))
(assert
(let ((?def0 (not (<= 0 (+ |x 1| (* (- 1) (as @1 Real)))))))

?def0
))
(check-sat)
(exit)
