(set-logic QF_LRA)(define-fun |1x| () Real
    (/ 3 2))(define-fun .frame1 () Real
    0)(assert (= 1x (/ 3 2)))(assert (= .frame1 0))(assert (= (+ 1x .frame1) (/ 3 2)))(check-sat)